"""py2lean_c19 - source-tie front-end for the line readers of C19 (round 3d; trusted together with harness/py2lean.py).

`boltons.strutils.iter_splitlines` / `indent` and `boltons.jsonutils.reverse_iter_lines` are outside the source
translator's subset only through what they CALL: a compiled regular expression (`_line_ending_re.finditer`, match
objects), a file object (`seek` / `tell` / `read`), `bytes.splitlines`, `bytes.decode`.  This module is

  * the translator module of the C19 specs (spec key `translator: 'py2lean_c19'`): `translate_module` hands the specs
    to the unmodified base translator (`py2lean.translate_module`), `selftest` validates the result against CPython;
  * the extension module of those specs (spec key `ext: 'py2lean_c19'`): `prepass` rewrites the function - purely
    syntactically, on the AST - into the base translator's subset, with every external call replaced by a
    SPEC-DECLARED OPERATION: either an extra PARAMETER of the generated definition (the regex: its `finditer` result as
    the list of group spans, whose meaning - the regenerated line-ending table - is supplied by the tie theorem) or a
    fixed function of the runtime `lean/BoltonsVerif/PyRtC19.lean` (`%c19.<op>` pseudo-calls, `translate_op`).

Rules (each is applied only when its side condition holds; otherwise the construct reaches the base translator and is
refused there, so that the tie theorem of the function stops checking - never guessed).  Specified in notes/SRCTIE.md
section "Round 3d: C19".

 L1 `for m in <RE>.finditer(<T>)`, `<RE>` a name the spec declares under `c19.regex` (-> parameter name P), `<T>` a
    declared text parameter                                          -> `for m in P`  (P : List (Int x Int) is appended
    to the parameter list; it stands for `[(m.start(g), m.end(g)) for m in <RE>.finditer(<T>)]`, g the declared group)
    side conditions: `<RE>` is bound exactly once in the module, at top level, by `re.compile(...)`, and is not
    rebound in the function; `m` is a plain name whose every other occurrence in the function is one of L2's forms
    inside the loop body; exactly one such loop per declared regex.
 L2 `m.start(g)` / `m.end(g)` / `m.span(g)` / `a, b = m.span(g)` with g the declared group (g omitted = 0; 0 and 1 are
    interchangeable when group 1 is the whole pattern, checked on the parsed pattern)
                                                                     -> `m[0]` / `m[1]` / `m` / `a, b = m[0], m[1]`
 L3 the empty string literal `''` in a function whose declared texts are polymorphic lists (`List a`) -> `[]`
    (a str is the list of its code points; a non-empty literal is left alone and refused by the base translator).
 L5 a parameter the spec declares a PREDICATE on texts (`c19.pred: {key: op}`): it leaves the parameter list and
    `key(E)` (one positional argument) -> `%c19.<op>(E)` = `PyRtC19.lineKey E`, the `key` field of the instance
    `[PyRtC19.LineKey a]` the generated definition takes (spec `classes`); the tie theorem holds for EVERY instance.
    side conditions: `key` is never rebound and has no other occurrence.  The predicate is assumed pure (no effect on
    the other arguments, no exception) - what the hand model's `key : List Nat -> Bool` assumes.
 L6 `S.join(E)`, `S` a declared text parameter                        -> `%c19.join(S, E)` = `PyRtC19.join`
 L7 default values of parameters are dropped (the generated definition takes every parameter explicitly; a default is
    API, evaluated once, and not part of what the tie says).
 L8 `isinstance(<T>, str)`, `<T>` a declared text                        -> `True` (the declared kind; the base translator
    would decide a kind test by the declared Lean type - a list - and drop the branch); against any other class: refused.
 L4 `f(<T>)` where `f` is a function of the same spec group translated BEFORE this one and given extra parameters by
    L1, `<T>` a declared text parameter of this function             -> `f(<T>, P...)`, and this function gets the same
    extra parameters (they stand for the same thing: the regex applied to the same text).

Further rule families (specified in notes/SRCTIE.md): B1-B8 (section 6.5: a binary file object as (content, position), bytes
as lists - `reverse_iter_lines`, binary mode), T1-T3 (section 6.6, round 3f: a parameter declared to be the codec name
'utf-8' - `reverse_iter_lines`, text mode: truth tests fold to the true branch, `X.decode(P)` -> `PyRtC19.decodeUtf8?`),
J1-J9 (section 6.7, round 3f: `JSONLIterator.next` as a function of the lines its stored iterator still yields and the
flags it reads; `json.loads` a type-class parameter assumed pure; `try ... except Exception` + bare `raise` by that purity;
line kinds `bytes` and `str`).
"""
from __future__ import annotations

import ast
import copy
import os
import random
import re
import shutil
import subprocess
import tempfile
import time

import py2lean
from py2lean import Unsupported

RT_IMPORT = 'PyRtC19'
OP = '%c19.'

# operation -> (parameter types, result type, Lean function)
OPS = {
    'line_key': (['List α'], 'Bool', 'PyRtC19.lineKey'),     # L5: the caller's predicate `key`, a type-class parameter
    'join': (['List α', 'List (List α)'], 'List α', 'PyRtC19.join'),     # L6: `sep.join(parts)`
    # --- bytes and binary files (B-rules).  A byte is an item of the type variable β with an instance [PyRtC19.Byte β]
    # (spec `classes`; its value as a number is read only by the operations below: the code never computes with a byte)
    'bytes_splitlines': (['List β'], 'List (List β)', 'PyRtC19.bytesSplitlines'),     # `b.splitlines()`
    'rev_tail': (['List (List β)'], 'List (List β)', 'PyRtC19.revTail'),               # `ls[:0:-1]`
    'reversed': (['List (List β)'], 'List (List β)', 'PyRtC19.reversed'),              # `ls[::-1]`
    'head': (['List (List β)'], 'List β', 'PyRtC19.head'),            # `ls[0]` where `ls` is known to be non-empty
    'file_read': (['List β', 'Int', 'Int'], 'List β', 'PyRtC19.fileRead'),            # `f.read(n)` at (data, pos)
    'seek_set': (['Int'], 'Int', 'PyRtC19.seekSet?', True),                # `f.seek(p)`: ValueError for a negative p
    # --- text mode (T-rules, round 3f): `X.decode(P)`, P a parameter declared to be the codec name 'utf-8'
    'decode_utf8': (['List β'], 'Str', 'PyRtC19.decodeUtf8?', True),       # UnicodeDecodeError (a ValueError) or the text
    # --- JSONLIterator.next (J-rules, round 3f): the stored line iterator is the list of the lines it still yields
    'iter_next': (['List (List β)'], 'List β', 'PyRtC19.iterNext?', True),           # `next(it)`: StopIteration when exhausted
    'iter_rest': (['List (List β)'], 'List (List β)', 'PyRtC19.iterRest'),           # the iterator after that `next`
    'lstrip_ws': (['List β'], 'List β', 'PyRtC19.lstripWs'),                         # `b.lstrip()` (ASCII white space)
    'lstrip_ws_t': (['List β'], 'List β', 'PyRtC19.lstripWsT'),                      # `s.lstrip()` on a str (Unicode white space)
    'rstrip_set': (['List β', 'List β'], 'List β', 'PyRtC19.rstripSet'),             # `b.rstrip(chars)`
    'json_loads': (['List β'], 'γ', 'PyRtC19.jsonLoads?', True),         # `json.loads(b)`: the instance [JsonLoads β γ]
    'json_loads_fails': (['List β'], 'Bool', 'PyRtC19.jsonLoadsFails'),  # does `json.loads(b)` raise (a pure function of b)
}
BYTES_T = ('List', ('Var', 'β'))


# --------------------------------------------------------------------------------------------------- prepass

def _cfg(spec):
    return spec.get('c19') or {}


def _regex_binding(tree, name):
    """the `re.compile(...)` call that binds `name` (module level, exactly once), else None"""
    found = []
    for n in ast.walk(tree):
        if isinstance(n, ast.Name) and n.id == name and isinstance(n.ctx, (ast.Store, ast.Del)):
            found.append(n)
        if isinstance(n, (ast.FunctionDef, ast.ClassDef, ast.AsyncFunctionDef)) and n.name == name:
            found.append(n)
        if isinstance(n, ast.arg) and n.arg == name:
            found.append(n)
        if isinstance(n, (ast.Global, ast.Nonlocal)) and name in n.names:
            found.append(n)
        if isinstance(n, ast.alias) and (n.asname or n.name).split('.')[0] == name:
            found.append(n)
    if len(found) != 1:
        return None
    for st in tree.body:
        if isinstance(st, ast.Assign) and len(st.targets) == 1 and st.targets[0] is found[0] \
                and isinstance(st.value, ast.Call) and ast.unparse(st.value.func) == 're.compile':
            return st.value
    return None


def _group_is_whole(call, group):
    """is group `group` of the pattern compiled by `call` the whole pattern (so that start()/start(0) = start(group))?"""
    try:
        pat = ast.literal_eval(call.args[0])
        try:
            import re._parser as sp
            import re._constants as sc
        except ImportError:      # pragma: no cover
            import sre_parse as sp
            import sre_constants as sc
        p = sp.parse(pat)
        return len(p.data) == 1 and p.data[0][0] is sc.SUBPATTERN and p.data[0][1][0] == group
    except Exception:    # noqa: BLE001
        return False


class _Rewrite(ast.NodeTransformer):
    def __init__(self, mvars, group, whole, empty_str):
        self.mvars, self.group, self.whole, self.empty_str = mvars, group, whole, empty_str
        self.notes = set()

    def _group_ok(self, call):
        if call.keywords or len(call.args) > 1:
            return False
        if not call.args:
            return self.group == 0 or self.whole
        a = call.args[0]
        if not (isinstance(a, ast.Constant) and type(a.value) is int):
            return False
        # `whole`: group 1 of the pattern is the whole pattern, so groups 0 and 1 have the same spans
        return a.value == self.group or (self.whole and a.value in (0, 1) and self.group in (0, 1))

    def visit_Call(self, n):
        f = n.func
        if isinstance(f, ast.Attribute) and isinstance(f.value, ast.Name) and f.value.id in self.mvars \
                and f.attr in ('start', 'end', 'span') and self._group_ok(n):
            self.notes.add('c19:match-span')
            base = ast.Name(id=f.value.id, ctx=ast.Load())
            base._c19_ok = True
            if f.attr == 'span':
                return ast.copy_location(base, n)
            return ast.copy_location(ast.Subscript(value=base, slice=ast.Constant(value=0 if f.attr == 'start' else 1),
                                                   ctx=ast.Load()), n)
        if isinstance(f, ast.Name) and f.id == 'isinstance' and len(n.args) == 2 and not n.keywords \
                and isinstance(n.args[0], ast.Name) and n.args[0].id in getattr(self, 'texts', ()):
            # L8: the declared kind of a text parameter is `str` (the base translator would decide the test by the
            # declared Lean type, a list, and drop the branch)
            if isinstance(n.args[1], ast.Name) and n.args[1].id == 'str':
                self.notes.add('c19:text-is-str')
                return ast.copy_location(ast.Constant(value=True), n)
            raise Unsupported(n, 'kind test of a declared text against something else than `str`')
        if isinstance(f, ast.Name) and f.id in getattr(self, 'preds', {}) and len(n.args) == 1 and not n.keywords \
                and not isinstance(n.args[0], ast.Starred):
            self.notes.add('c19:predicate-call')
            op = ast.Name(id=OP + self.preds[f.id], ctx=ast.Load())
            return ast.copy_location(ast.Call(func=op, args=[self.visit(n.args[0])], keywords=[]), n)
        if isinstance(f, ast.Attribute) and f.attr == 'join' and isinstance(f.value, ast.Name) \
                and f.value.id in getattr(self, 'join_on', ()) and len(n.args) == 1 and not n.keywords \
                and not isinstance(n.args[0], ast.Starred):
            self.notes.add('c19:join')
            op = ast.Name(id=OP + 'join', ctx=ast.Load())
            return ast.copy_location(ast.Call(func=op, args=[ast.Name(id=f.value.id, ctx=ast.Load()),
                                                             self.visit(n.args[0])], keywords=[]), n)
        self.generic_visit(n)
        return n

    def visit_Assign(self, n):
        v = n.value
        if len(n.targets) == 1 and isinstance(n.targets[0], ast.Tuple) and len(n.targets[0].elts) == 2 \
                and all(isinstance(e, ast.Name) for e in n.targets[0].elts) \
                and isinstance(v, ast.Call) and isinstance(v.func, ast.Attribute) and v.func.attr == 'span' \
                and isinstance(v.func.value, ast.Name) and v.func.value.id in self.mvars and self._group_ok(v):
            self.notes.add('c19:match-span')
            parts = []
            for i in (0, 1):
                base = ast.Name(id=v.func.value.id, ctx=ast.Load())
                base._c19_ok = True
                parts.append(ast.Subscript(value=base, slice=ast.Constant(value=i), ctx=ast.Load()))
            return ast.copy_location(ast.Assign(targets=n.targets, value=ast.Tuple(elts=parts, ctx=ast.Load())), n)
        self.generic_visit(n)
        return n

    def visit_Constant(self, n):
        if self.empty_str and isinstance(n.value, str) and n.value == '':
            self.notes.add('c19:empty-text')
            return ast.copy_location(ast.List(elts=[], ctx=ast.Load()), n)
        return n


# --------------------------------------------------------------------------------------------------- B-rules (bytes, files)

def _names(node, name, ctxs=(ast.Load, ast.Store, ast.Del)):
    return [n for n in ast.walk(node) if isinstance(n, ast.Name) and n.id == name and isinstance(n.ctx, ctxs)]


def _opcall(name, args, at):
    return ast.copy_location(ast.Call(func=ast.Name(id=OP + name, ctx=ast.Load()), args=list(args), keywords=[]), at)


def _is_minus_one(n):
    return (isinstance(n, ast.UnaryOp) and isinstance(n.op, ast.USub) and isinstance(n.operand, ast.Constant)
            and n.operand.value == 1 and type(n.operand.value) is int) or \
        (isinstance(n, ast.Constant) and type(n.value) is int and n.value == -1)


def _file_prepass(f, cfg, notes):
    """B1-B8 (see the module docstring): a binary file object as (content, position), bytes as lists"""
    fc = cfg['file']
    F, DATA, POS = fc['param'], fc['data'], fc['pos']
    nones = list(cfg.get('none_params', []))
    # T-rules (round 3f): parameters declared to be a NON-EMPTY str naming the codec `cfg['codec']` (only 'utf-8' is known)
    truthy = list(cfg.get('truthy_params', []))
    if truthy and cfg.get('codec') != 'utf-8':
        raise Unsupported(f, 'a codec parameter is declared but the codec is not utf-8')
    if set(truthy) & set(nones):
        raise Unsupported(f, 'a parameter is declared both None and a codec name')
    argn = [a.arg for a in f.args.args]
    if F not in argn or any(p not in argn for p in nones + truthy):
        raise Unsupported(f, 'the declared file / None parameters are not parameters of the function')
    if f.args.vararg or f.args.kwarg or f.args.kwonlyargs or f.args.posonlyargs:
        raise Unsupported(f, 'parameter kinds')
    for n in ast.walk(f):
        if isinstance(n, ast.Name) and n.id in (DATA, POS):
            raise Unsupported(n, 'the name %s reserved for the abstract file is used by the source' % n.id)
        if isinstance(n, (ast.FunctionDef, ast.Lambda, ast.ClassDef, ast.Global, ast.Nonlocal)) and n is not f:
            raise Unsupported(n, 'nested scope')
    # ---- B1: the two probes of the prologue (top level only)
    body = list(f.body)
    out = []
    i = 0
    while i < len(body):
        st = body[i]
        if isinstance(st, ast.Try) and not st.orelse and not st.finalbody and len(st.handlers) == 1 and len(st.body) == 1:
            h = st.handlers[0]
            htypes = h.type.elts if isinstance(h.type, ast.Tuple) else ([h.type] if h.type is not None else [])
            has_attr_err = any(isinstance(t, ast.Name) and t.id == 'AttributeError' for t in htypes)
            b = st.body[0]
            # (a) try: P = P or F.<attr>  except AttributeError: P = None      (P declared None)
            if has_attr_err and len(htypes) == 1 and h.name is None and isinstance(b, ast.Assign) and len(b.targets) == 1 \
                    and isinstance(b.targets[0], ast.Name) and b.targets[0].id in nones + truthy \
                    and isinstance(b.value, ast.BoolOp) and isinstance(b.value.op, ast.Or) and len(b.value.values) == 2 \
                    and isinstance(b.value.values[0], ast.Name) and b.value.values[0].id == b.targets[0].id \
                    and isinstance(b.value.values[1], ast.Attribute) and isinstance(b.value.values[1].value, ast.Name) \
                    and b.value.values[1].value.id == F \
                    and len(h.body) == 1 and isinstance(h.body[0], ast.Assign) and len(h.body[0].targets) == 1 \
                    and isinstance(h.body[0].targets[0], ast.Name) and h.body[0].targets[0].id == b.targets[0].id \
                    and isinstance(h.body[0].value, ast.Constant) and h.body[0].value.value is None:
                # T1: P a non-empty str: `P or F.<attr>` is P (the attribute is not read, nothing is raised)
                notes.add('c19:truthy-probe' if b.targets[0].id in truthy else 'c19:none-probe')
                i += 1
                continue
            # (b) V = F ; try: F = V.detach()  except (AttributeError, ...): pass
            if has_attr_err and h.name is None and len(h.body) == 1 and isinstance(h.body[0], ast.Pass) \
                    and isinstance(b, ast.Assign) and len(b.targets) == 1 and isinstance(b.targets[0], ast.Name) \
                    and b.targets[0].id == F and isinstance(b.value, ast.Call) and not b.value.args and not b.value.keywords \
                    and isinstance(b.value.func, ast.Attribute) and b.value.func.attr == 'detach' \
                    and isinstance(b.value.func.value, ast.Name):
                V = b.value.func.value.id
                if V == F:
                    notes.add('c19:detach-probe')
                    i += 1
                    continue
                prev = out[-1] if out else None
                if isinstance(prev, ast.Assign) and len(prev.targets) == 1 and isinstance(prev.targets[0], ast.Name) \
                        and prev.targets[0].id == V and isinstance(prev.value, ast.Name) and prev.value.id == F \
                        and len(_names(f, V)) == 2:
                    out.pop()
                    notes.add('c19:detach-probe')
                    i += 1
                    continue
        out.append(st)
        i += 1
    f.body = out
    # ---- B2: parameters declared None
    for P in nones + truthy:
        if _names(f, P, (ast.Store, ast.Del)):
            raise Unsupported(f, 'the parameter %s (declared None / a codec name) is assigned' % P)

    class _Fold(ast.NodeTransformer):
        def visit_IfExp(self, n):
            self.generic_visit(n)
            if isinstance(n.test, ast.Name) and n.test.id in nones:
                notes.add('c19:none-fold')
                return n.orelse
            return n

        def visit_If(self, n):
            self.generic_visit(n)
            if isinstance(n.test, ast.Name) and n.test.id in nones:
                notes.add('c19:none-fold')
                return n.orelse or [ast.copy_location(ast.Pass(), n)]
            return n
    _Fold().visit(f)
    for P in nones:
        if _names(f, P):
            raise Unsupported(_names(f, P)[0], 'the parameter %s (declared None) is used otherwise than as a truth test' % P)

    # ---- T2 / T3: parameters declared a codec name: truth tests fold to the TRUE branch, `X.decode(P)` is the operation
    class _FoldT(ast.NodeTransformer):
        def visit_IfExp(self, n):
            self.generic_visit(n)
            if isinstance(n.test, ast.Name) and n.test.id in truthy:
                notes.add('c19:truthy-fold')
                return n.body
            return n

        def visit_If(self, n):
            self.generic_visit(n)
            if isinstance(n.test, ast.Name) and n.test.id in truthy:
                notes.add('c19:truthy-fold')
                return n.body
            return n

        def visit_Call(self, n):
            self.generic_visit(n)
            if isinstance(n.func, ast.Attribute) and n.func.attr == 'decode' and not n.keywords and len(n.args) == 1 \
                    and isinstance(n.args[0], ast.Name) and n.args[0].id in truthy:
                notes.add('c19:decode')
                return _opcall('decode_utf8', [n.func.value], n)
            return n
    if truthy:
        _FoldT().visit(f)
    for P in truthy:
        if _names(f, P):
            raise Unsupported(_names(f, P)[0], 'the parameter %s (declared a codec name) is used otherwise than as a truth '
                                               'test or as the argument of .decode()' % P)
    # ---- B4: seek / tell / read on the declared file parameter
    if _names(f, F, (ast.Store, ast.Del)):
        raise Unsupported(f, 'the file parameter %s is rebound' % F)

    def is_f_call(node, meth):
        return isinstance(node, ast.Call) and isinstance(node.func, ast.Attribute) and node.func.attr == meth \
            and isinstance(node.func.value, ast.Name) and node.func.value.id == F and not node.keywords

    def whence(node):
        src = ast.unparse(node)
        return {'os.SEEK_SET': 0, 'os.SEEK_END': 2, 'io.SEEK_SET': 0, 'io.SEEK_END': 2, '0': 0, '2': 2}.get(src)

    def name(n_, ctx):
        return ast.Name(id=n_, ctx=ctx)

    class _Tell(ast.NodeTransformer):
        def visit_Call(self, n):
            self.generic_visit(n)
            if is_f_call(n, 'tell') and not n.args:
                notes.add('c19:file-tell')
                return ast.copy_location(name(POS, ast.Load()), n)
            return n

    def stmts(ss):
        res = []
        for st in ss:
            if isinstance(st, ast.Expr) and is_f_call(st.value, 'seek'):
                a = st.value.args
                if len(a) == 2 and whence(a[1]) == 2 and isinstance(a[0], ast.Constant) and a[0].value == 0 \
                        and type(a[0].value) is int:
                    notes.add('c19:file-seek-end')
                    res.append(ast.copy_location(ast.Assign(
                        targets=[name(POS, ast.Store())],
                        value=ast.Call(func=name('len', ast.Load()), args=[name(DATA, ast.Load())], keywords=[])), st))
                    continue
                if len(a) == 1 or (len(a) == 2 and whence(a[1]) == 0):
                    notes.add('c19:file-seek-set')
                    res.append(ast.copy_location(ast.Assign(
                        targets=[name(POS, ast.Store())], value=_opcall('seek_set', [_Tell().visit(a[0])], st)), st))
                    continue
                raise Unsupported(st, 'seek with this whence')
            if isinstance(st, ast.Assign) and len(st.targets) == 1 and isinstance(st.targets[0], ast.Name) \
                    and is_f_call(st.value, 'read') and len(st.value.args) == 1:
                V = st.targets[0].id
                notes.add('c19:file-read')
                res.append(ast.copy_location(ast.Assign(
                    targets=[name(V, ast.Store())],
                    value=_opcall('file_read', [name(DATA, ast.Load()), name(POS, ast.Load()),
                                                _Tell().visit(st.value.args[0])], st)), st))
                res.append(ast.copy_location(ast.Assign(
                    targets=[name(POS, ast.Store())],
                    value=ast.BinOp(left=name(POS, ast.Load()), op=ast.Add(),
                                    right=ast.Call(func=name('len', ast.Load()), args=[name(V, ast.Load())], keywords=[]))), st))
                continue
            for fld in ('body', 'orelse', 'finalbody'):
                if isinstance(getattr(st, fld, None), list) and getattr(st, fld) and isinstance(getattr(st, fld)[0], ast.stmt):
                    setattr(st, fld, stmts(getattr(st, fld)))
            if isinstance(st, ast.Try):
                for h in st.handlers:
                    h.body = stmts(h.body)
            res.append(st)
        return res
    f.body = stmts(f.body)
    _Tell().visit(f)
    if _names(f, F):
        raise Unsupported(_names(f, F)[0], 'the file object %s is used otherwise than by seek / tell / read statements' % F)
    new_args = []
    for a in f.args.args:
        if a.arg == F:
            new_args += [ast.arg(arg=DATA), ast.arg(arg=POS)]
        elif a.arg not in nones + truthy:
            new_args.append(a)
    f.args.args = new_args
    f.args.defaults = []
    notes.add('c19:file-param')

    # ---- B3 / B5 / B6 / B8: expressions
    class _Expr(ast.NodeTransformer):
        def visit_Constant(self, n):
            if isinstance(n.value, bytes):
                notes.add('c19:bytes-literal')
                return _opcall('bytes', [n], n)
            return n

        def visit_Call(self, n):
            if isinstance(n.func, ast.Name) and n.func.id == OP + 'bytes':
                return n
            self.generic_visit(n)
            if isinstance(n.func, ast.Attribute) and n.func.attr == 'splitlines' and not n.args and not n.keywords:
                notes.add('c19:bytes-splitlines')
                return _opcall('bytes_splitlines', [n.func.value], n)
            return n

        def visit_Subscript(self, n):
            self.generic_visit(n)
            sl = n.slice
            if isinstance(n.ctx, ast.Load) and isinstance(sl, ast.Slice) and sl.step is not None and _is_minus_one(sl.step) \
                    and sl.lower is None:
                if sl.upper is None:
                    notes.add('c19:reversed-slice')
                    return _opcall('reversed', [n.value], n)
                if isinstance(sl.upper, ast.Constant) and type(sl.upper.value) is int and sl.upper.value == 0:
                    notes.add('c19:reversed-slice')
                    return _opcall('rev_tail', [n.value], n)
            return n

        def visit_BoolOp(self, n):
            # B8: `len(X) < c or ... X[0] ...` (c >= 1): in the later operands X is not empty
            v0 = n.values[0]
            if isinstance(n.op, ast.Or) and isinstance(v0, ast.Compare) and len(v0.ops) == 1 and isinstance(v0.ops[0], ast.Lt) \
                    and isinstance(v0.left, ast.Call) and isinstance(v0.left.func, ast.Name) and v0.left.func.id == 'len' \
                    and len(v0.left.args) == 1 and isinstance(v0.left.args[0], ast.Name) and not v0.left.keywords \
                    and isinstance(v0.comparators[0], ast.Constant) and type(v0.comparators[0].value) is int \
                    and v0.comparators[0].value >= 1:
                X = v0.left.args[0].id

                class _Head(ast.NodeTransformer):
                    def visit_Subscript(self, m):
                        self.generic_visit(m)
                        if isinstance(m.ctx, ast.Load) and isinstance(m.value, ast.Name) and m.value.id == X \
                                and isinstance(m.slice, ast.Constant) and type(m.slice.value) is int and m.slice.value == 0:
                            notes.add('c19:guarded-head')
                            return _opcall('head', [m.value], m)
                        return m
                n.values = [v0] + [_Head().visit(v) for v in n.values[1:]]
            self.generic_visit(n)
            return n
    _Expr().visit(f)
    # ---- B7: L.append(E) on a local that only ever holds fresh lists
    app = [st for st in ast.walk(f) if isinstance(st, ast.Expr) and isinstance(st.value, ast.Call)
           and isinstance(st.value.func, ast.Attribute) and st.value.func.attr == 'append'
           and isinstance(st.value.func.value, ast.Name) and len(st.value.args) == 1 and not st.value.keywords]
    for L in sorted({st.value.func.value.id for st in app}):
        if L in [a.arg for a in f.args.args]:
            raise Unsupported(f, 'append on a parameter')
        allowed = set()
        for n in ast.walk(f):
            if isinstance(n, ast.Call) and isinstance(n.func, ast.Name) and (n.func.id == 'len' or n.func.id.startswith(OP)):
                allowed.update(id(a) for a in n.args if isinstance(a, ast.Name))
            if isinstance(n, ast.Subscript) and isinstance(n.value, ast.Name):
                allowed.add(id(n.value))
            if isinstance(n, ast.For) and isinstance(n.iter, ast.Name):
                allowed.add(id(n.iter))
            if isinstance(n, ast.Expr) and n in app:
                allowed.add(id(n.value.func.value))
            if isinstance(n, ast.Assign):
                ok = len(n.targets) == 1 and isinstance(n.targets[0], ast.Name)
                if any(isinstance(t, ast.Name) and t.id == L for t in ast.walk(ast.Module(body=[ast.Expr(value=t_) for t_ in n.targets], type_ignores=[]))):
                    if not (ok and isinstance(n.value, ast.Call) and isinstance(n.value.func, ast.Name)
                            and n.value.func.id.startswith(OP) and not n.value.func.id.startswith(OP + 'head')):
                        raise Unsupported(n, 'the appended-to local %s is bound to something else than an operation result' % L)
        for n in _names(f, L, (ast.Load,)):
            if id(n) not in allowed:
                raise Unsupported(n, 'the appended-to local %s may be aliased' % L)
        for n in ast.walk(f):
            if isinstance(n, (ast.For, ast.comprehension)) and any(isinstance(t, ast.Name) and t.id == L for t in ast.walk(n.target)):
                raise Unsupported(n, 'the appended-to local %s is a loop target' % L)

    class _App(ast.NodeTransformer):
        def visit_Expr(self, st):
            if st in app:
                L = st.value.func.value.id
                notes.add('c19:append')
                return ast.copy_location(ast.Assign(
                    targets=[ast.Name(id=L, ctx=ast.Store())],
                    value=ast.BinOp(left=ast.Name(id=L, ctx=ast.Load()), op=ast.Add(),
                                    right=ast.List(elts=[st.value.args[0]], ctx=ast.Load()))), st)
            return st
    _App().visit(f)
    ast.fix_missing_locations(f)
    return f


def _jsonl_prepass(f, cfg, mtree, notes):
    """J1-J7 (notes/SRCTIE.md section 6.6): `JSONLIterator.next` as a function of (the lines the stored line iterator still
    yields, the flags it reads) returning (the object, the lines left)"""
    jc = cfg['jsonl']
    IT_ATTR, IT = jc['iter_attr'], jc['iter_param']
    flags = dict(jc.get('flags') or {})                  # attribute -> parameter name
    KIND = jc.get('line_kind')
    if KIND not in ('bytes', 'str') or jc.get('loads') != 'json.loads':
        raise Unsupported(f, 'only the kinds `lines are bytes / str, parsed by json.loads` are known')
    a = f.args
    if len(a.args) != 1 or a.vararg or a.kwarg or a.kwonlyargs or a.posonlyargs or a.defaults:
        raise Unsupported(f, 'a method of self alone is expected')
    SELF = a.args[0].arg
    reserved = {IT, 'jv_line'} | set(flags.values())
    for n in ast.walk(f):
        if isinstance(n, ast.Name) and n.id in reserved:
            raise Unsupported(n, 'the name %s reserved for the iterator state is used by the source' % n.id)
        if isinstance(n, (ast.FunctionDef, ast.Lambda, ast.ClassDef, ast.Global, ast.Nonlocal, ast.Yield, ast.YieldFrom)) \
                and n is not f:
            raise Unsupported(n, 'nested scope / generator')
    if _names(f, SELF, (ast.Store, ast.Del)) or _names(f, 'json', (ast.Store, ast.Del)) or _names(f, 'next', (ast.Store, ast.Del)) \
            or _names(f, 'isinstance', (ast.Store, ast.Del)):
        raise Unsupported(f, 'self / json / next / isinstance is rebound')
    if mtree is not None:
        imp = [n for n in mtree.body if isinstance(n, ast.Import) and any(al.name == 'json' and al.asname is None for al in n.names)]
        bound = [n for n in ast.walk(mtree) if (isinstance(n, ast.Name) and n.id in ('json', 'next', 'isinstance')
                                                and isinstance(n.ctx, (ast.Store, ast.Del)))
                 or (isinstance(n, (ast.FunctionDef, ast.ClassDef)) and n.name in ('json', 'isinstance'))
                 or (isinstance(n, ast.FunctionDef) and n.name == 'next' and n not in
                     [m for c in mtree.body if isinstance(c, ast.ClassDef) for m in c.body])]
        if len(imp) != 1 or bound:
            raise Unsupported(f, '`json` is not the module imported once at top level, or a builtin is shadowed')

    def is_self_attr(n, attr=None):
        return isinstance(n, ast.Attribute) and isinstance(n.value, ast.Name) and n.value.id == SELF \
            and isinstance(n.ctx, ast.Load) and (attr is None or n.attr == attr)

    def is_next(n):
        return isinstance(n, ast.Call) and isinstance(n.func, ast.Name) and n.func.id == 'next' and len(n.args) == 1 \
            and not n.keywords and is_self_attr(n.args[0], IT_ATTR)

    def name(n_, ctx):
        return ast.Name(id=n_, ctx=ctx)

    # ---- J2: `V = next(self.<it>)[.m(...)...]`: the `next` is the innermost receiver, evaluated before everything else
    def stmts(ss):
        res = []
        for st in ss:
            if isinstance(st, ast.Assign) and any(is_next(n) for n in ast.walk(st.value)):
                if len(st.targets) != 1 or not isinstance(st.targets[0], ast.Name):
                    raise Unsupported(st, 'next(...) assigned to something else than a local')
                chain, cur, parent = [], st.value, None
                while not is_next(cur):
                    if isinstance(cur, ast.Call) and isinstance(cur.func, ast.Attribute):
                        parent, cur = cur.func, cur.func.value
                    else:
                        raise Unsupported(st, 'next(...) is not the innermost receiver of the assigned expression')
                if sum(1 for n in ast.walk(st.value) if is_next(n)) != 1:
                    raise Unsupported(st, 'more than one next(...) in one statement')
                notes.add('c19:iter-next')
                res.append(ast.copy_location(ast.Assign(targets=[name('jv_line', ast.Store())],
                                                        value=_opcall('iter_next', [name(IT, ast.Load())], st)), st))
                res.append(ast.copy_location(ast.Assign(targets=[name(IT, ast.Store())],
                                                        value=_opcall('iter_rest', [name(IT, ast.Load())], st)), st))
                if parent is None:
                    st.value = name('jv_line', ast.Load())
                else:
                    parent.value = name('jv_line', ast.Load())
                res.append(st)
                continue
            for fld in ('body', 'orelse', 'finalbody'):
                if isinstance(getattr(st, fld, None), list) and getattr(st, fld) and isinstance(getattr(st, fld)[0], ast.stmt):
                    setattr(st, fld, stmts(getattr(st, fld)))
            if isinstance(st, ast.Try):
                for h in st.handlers:
                    h.body = stmts(h.body)
            res.append(st)
        return res
    f.body = stmts(f.body)

    # ---- J1: the flags self.<attr> (read only)
    class _Flags(ast.NodeTransformer):
        def visit_Attribute(self, n):
            if is_self_attr(n) and n.attr in flags:
                notes.add('c19:self-flag')
                return ast.copy_location(name(flags[n.attr], ast.Load()), n)
            self.generic_visit(n)
            return n
    _Flags().visit(f)
    if _names(f, SELF):
        raise Unsupported(_names(f, SELF)[0], 'self is used otherwise than through next(self.%s) in an assignment and the '
                                              'declared flags' % IT_ATTR)

    # ---- J3: lstrip() / rstrip(chars) on lines; J4: isinstance(<line>, str|bytes) by the declared kind; J5: constant tests
    class _Lines(ast.NodeTransformer):
        def visit_Call(self, n):
            self.generic_visit(n)
            if isinstance(n.func, ast.Attribute) and not n.keywords:
                if n.func.attr == 'lstrip' and not n.args:
                    notes.add('c19:lstrip')
                    return _opcall('lstrip_ws' if KIND == 'bytes' else 'lstrip_ws_t', [n.func.value], n)
                if n.func.attr == 'rstrip' and len(n.args) == 1:
                    notes.add('c19:rstrip')
                    return _opcall('rstrip_set', [n.func.value, n.args[0]], n)
            return n
    _Lines().visit(f)
    line_ops = (OP + 'iter_next', OP + 'lstrip_ws', OP + 'lstrip_ws_t', OP + 'rstrip_set')
    binds = {}
    for n in ast.walk(f):
        tg = []
        if isinstance(n, ast.Assign):
            tg = [(t, n.value) for t in n.targets]
        elif isinstance(n, (ast.AugAssign, ast.AnnAssign)):
            tg = [(n.target, None)]
        elif isinstance(n, (ast.For, ast.comprehension)):
            tg = [(n.target, None)]
        elif isinstance(n, ast.NamedExpr):
            tg = [(n.target, None)]
        elif isinstance(n, (ast.With,)):
            tg = [(i.optional_vars, None) for i in n.items if i.optional_vars is not None]
        for t, v in tg:
            for m in ast.walk(t):
                if isinstance(m, ast.Name):
                    binds.setdefault(m.id, []).append(v if isinstance(t, ast.Name) else None)
    line_vars = {'jv_line'}
    changed = True
    while changed:
        changed = False
        for v, vals in binds.items():
            if v in line_vars:
                continue
            if vals and all(x is not None and ((isinstance(x, ast.Call) and isinstance(x.func, ast.Name) and x.func.id in line_ops
                                                and (x.func.id == OP + 'iter_next' or (isinstance(x.args[0], ast.Name)
                                                                                      and x.args[0].id in line_vars | {v})))
                                               or (isinstance(x, ast.Name) and x.id in line_vars | {v})) for x in vals) \
                    and any(not (isinstance(x, ast.Name) and x.id == v) and not (isinstance(x, ast.Call) and x.func.id != OP + 'iter_next'
                                                                                   and x.args[0].id == v) for x in vals):
                line_vars.add(v)
                changed = True

    class _Kind(ast.NodeTransformer):
        def visit_Call(self, n):
            self.generic_visit(n)
            if isinstance(n.func, ast.Name) and n.func.id == 'isinstance' and len(n.args) == 2 and not n.keywords \
                    and isinstance(n.args[0], ast.Name) and n.args[0].id in line_vars and isinstance(n.args[1], ast.Name) \
                    and n.args[1].id in ('str', 'bytes'):
                notes.add('c19:line-kind')
                return ast.copy_location(ast.Constant(value=(n.args[1].id == KIND)), n)
            return n

        def visit_IfExp(self, n):
            self.generic_visit(n)
            if isinstance(n.test, ast.Constant) and isinstance(n.test.value, bool):
                notes.add('c19:const-fold')
                return n.body if n.test.value else n.orelse
            return n

        def visit_If(self, n):
            self.generic_visit(n)
            if isinstance(n.test, ast.Constant) and isinstance(n.test.value, bool):
                notes.add('c19:const-fold')
                return (n.body if n.test.value else n.orelse) or [ast.copy_location(ast.Pass(), n)]
            return n
    _Kind().visit(f)
    for n in ast.walk(f):
        if isinstance(n, ast.Name) and n.id == 'isinstance':
            raise Unsupported(n, 'isinstance on something else than a line against str / bytes')

    # ---- J6: json.loads; `try: V = json.loads(X)` / `except Exception: H` with bare `raise` in H
    def is_loads(n):
        return isinstance(n, ast.Call) and ast.unparse(n.func) == 'json.loads' and len(n.args) == 1 and not n.keywords \
            and isinstance(n.args[0], ast.Name) and n.args[0].id in line_vars

    def reraise(ss, V, X, at_top=True):
        out = []
        for st in ss:
            if isinstance(st, ast.Raise) and st.exc is None and st.cause is None:
                notes.add('c19:reraise')
                out.append(ast.copy_location(ast.Assign(targets=[name(V, ast.Store())],
                                                        value=_opcall('json_loads', [name(X, ast.Load())], st)), st))
                continue
            if isinstance(st, ast.If):
                st.body = reraise(st.body, V, X, False)
                st.orelse = reraise(st.orelse, V, X, False)
            elif any(isinstance(m, ast.Raise) and m.exc is None for m in ast.walk(st)):
                raise Unsupported(st, 'bare raise inside this statement of the handler')
            out.append(st)
        return out

    def tries(ss):
        res = []
        for st in ss:
            if isinstance(st, ast.Try) and any(ast.unparse(m.func) == 'json.loads' for m in ast.walk(st) if isinstance(m, ast.Call)):
                h = st.handlers[0] if len(st.handlers) == 1 else None
                b = st.body[0] if len(st.body) == 1 else None
                if h is None or st.orelse or st.finalbody or h.name is not None or not (isinstance(h.type, ast.Name) and h.type.id == 'Exception') \
                        or not (isinstance(b, ast.Assign) and len(b.targets) == 1 and isinstance(b.targets[0], ast.Name) and is_loads(b.value)):
                    raise Unsupported(st, 'try around json.loads of another shape than `try: V = json.loads(<line>)` / `except Exception:`')
                V, X = b.targets[0].id, b.value.args[0].id
                if any(isinstance(m, ast.Name) and m.id in (X, V) and isinstance(m.ctx, (ast.Store, ast.Del)) for hs in h.body for m in ast.walk(hs)) \
                        or any(isinstance(m, ast.Name) and m.id == V for hs in h.body for m in ast.walk(hs)):
                    raise Unsupported(st, 'the handler binds or reads the parsed line / the result')
                if any(isinstance(m, ast.Call) and ast.unparse(m.func) == 'json.loads' for hs in h.body for m in ast.walk(hs)):
                    raise Unsupported(st, 'json.loads inside the handler')
                notes.add('c19:try-loads')
                ok = ast.copy_location(ast.Assign(targets=[name(V, ast.Store())], value=_opcall('json_loads', [name(X, ast.Load())], b)), b)
                res.append(ast.copy_location(ast.If(test=_opcall('json_loads_fails', [name(X, ast.Load())], st),
                                                    body=reraise(tries(h.body), V, X) or [ast.Pass()], orelse=[ok]), st))
                continue
            for fld in ('body', 'orelse', 'finalbody'):
                if isinstance(getattr(st, fld, None), list) and getattr(st, fld) and isinstance(getattr(st, fld)[0], ast.stmt):
                    setattr(st, fld, tries(getattr(st, fld)))
            if isinstance(st, ast.Try):
                for h in st.handlers:
                    h.body = tries(h.body)
            res.append(st)
        return res
    f.body = tries(f.body)

    class _Loads(ast.NodeTransformer):
        def visit_Call(self, n):
            self.generic_visit(n)
            if is_loads(n):
                notes.add('c19:json-loads')
                return _opcall('json_loads', [n.args[0]], n)
            return n
    _Loads().visit(f)
    for n in ast.walk(f):
        if isinstance(n, ast.Name) and n.id == 'json':
            raise Unsupported(n, 'json used otherwise than as json.loads(<line>)')
        if isinstance(n, ast.Raise) and n.exc is None:
            raise Unsupported(n, 'bare raise outside the handler of the json.loads try')

    # ---- B3: bytes literals; J9 (kind `str`): a str literal is the list of its code points (after J5 removed the dead branch,
    # a literal of the OTHER kind is refused)
    class _Bytes(ast.NodeTransformer):
        def visit_Constant(self, n):
            if isinstance(n.value, bytes):
                if KIND != 'bytes':
                    raise Unsupported(n, 'a bytes literal where the lines are str')
                notes.add('c19:bytes-literal')
                return _opcall('bytes', [n], n)
            if isinstance(n.value, str) and KIND == 'str':
                notes.add('c19:text-literal')
                return _opcall('text', [n], n)
            return n

        def visit_Expr(self, n):
            if isinstance(n.value, ast.Constant) and isinstance(n.value.value, str):
                return n                      # a docstring / string statement: no effect
            self.generic_visit(n)
            return n

        def visit_Call(self, n):
            if isinstance(n.func, ast.Name) and n.func.id in (OP + 'bytes', OP + 'text'):
                return n
            self.generic_visit(n)
            return n
    _Bytes().visit(f)

    # ---- J7: `return E` -> `return (E, <it>)`
    for n in ast.walk(f):
        if isinstance(n, ast.Return):
            if n.value is None:
                raise Unsupported(n, 'return without a value')
            n.value = ast.Tuple(elts=[n.value, name(IT, ast.Load())], ctx=ast.Load())
            notes.add('c19:return-state')
    # ---- J8: the function ends with `while <true constant>:` without `break`: control never leaves the loop by its end;
    # the base translator asks for an explicit end, so an (unreachable) `raise RecursionError` is appended
    last = f.body[-1] if f.body else None
    if isinstance(last, ast.While) and isinstance(last.test, ast.Constant) and type(last.test.value) in (int, bool) \
            and last.test.value in (1, True) and not last.orelse:
        def has_break(ss):
            for st in ss:
                if isinstance(st, ast.Break):
                    return True
                if isinstance(st, (ast.While, ast.For)):
                    if has_break(st.orelse):
                        return True
                    continue
                for fld in ('body', 'orelse', 'finalbody'):
                    if isinstance(getattr(st, fld, None), list) and has_break([x for x in getattr(st, fld) if isinstance(x, ast.stmt)]):
                        return True
                if isinstance(st, ast.Try) and any(has_break(h.body) for h in st.handlers):
                    return True
            return False
        if not has_break(last.body):
            notes.add('c19:endless-loop')
            last.test = ast.copy_location(ast.Constant(value=True), last.test)
            f.body.append(ast.copy_location(ast.Raise(exc=ast.Name(id='RecursionError', ctx=ast.Load()), cause=None), last))
    f.args.args = [ast.arg(arg=IT)] + [ast.arg(arg=p) for p in flags.values()]
    f.args.defaults = []
    ast.fix_missing_locations(f)
    return f


def prepass(fdef, tree, spec, notes):
    """-> the function rewritten into the base subset (a copy); `notes` collects the names of the applied rules"""
    cfg = _cfg(spec)
    if not cfg:
        return fdef
    mtree = getattr(fdef, '_module_tree', None) or tree
    f = copy.deepcopy(fdef)
    f._module_tree = mtree
    if cfg.get('jsonl'):
        return _jsonl_prepass(f, cfg, mtree, notes)
    if cfg.get('file'):
        return _file_prepass(f, cfg, notes)
    texts = list(cfg.get('text', []))
    extra = []                                   # parameters appended by L1 / L4
    group = cfg.get('group', 1)
    mvars = set()
    whole = True
    # L1: for m in <RE>.finditer(<T>)
    for rname, pname in (cfg.get('regex') or {}).items():
        loops = []
        for n in ast.walk(f):
            if isinstance(n, ast.For) and isinstance(n.iter, ast.Call) and isinstance(n.iter.func, ast.Attribute) \
                    and n.iter.func.attr == 'finditer' and isinstance(n.iter.func.value, ast.Name) \
                    and n.iter.func.value.id == rname:
                loops.append(n)
        if not loops:
            continue
        call = _regex_binding(mtree, rname) if mtree is not None else None
        if call is None or not call.args:
            raise Unsupported(loops[0], '%s is not bound exactly once, at module level, by re.compile(...)' % rname)
        if any(isinstance(n, ast.Name) and n.id == rname and not isinstance(n.ctx, ast.Load) for n in ast.walk(f)):
            raise Unsupported(loops[0], '%s is rebound in the function' % rname)
        if len(loops) != 1:
            raise Unsupported(loops[1], 'more than one finditer loop over %s' % rname)
        lp = loops[0]
        it = lp.iter
        if it.keywords or len(it.args) != 1 or not (isinstance(it.args[0], ast.Name) and it.args[0].id in texts):
            raise Unsupported(it, 'finditer of something else than a declared text parameter')
        if any(isinstance(n, ast.Name) and n.id == it.args[0].id and not isinstance(n.ctx, ast.Load) for n in ast.walk(f)):
            raise Unsupported(it, 'the scanned text parameter is rebound')
        if not isinstance(lp.target, ast.Name):
            raise Unsupported(lp, 'the match object is unpacked')
        if pname in {a.arg for a in f.args.args} or any(isinstance(n, ast.Name) and n.id == pname for n in ast.walk(f)):
            raise Unsupported(lp, 'the name %s reserved for the regex operation is used by the source' % pname)
        whole = whole and _group_is_whole(call, 1)
        mvars.add(lp.target.id)
        lp.iter = ast.copy_location(ast.Name(id=pname, ctx=ast.Load()), it)
        extra.append(pname)
        notes.add('c19:finditer-param')
    # L4: calls of earlier functions of the group that took extra parameters
    callees = {}
    for s2 in spec.get('_c19_group') or []:
        if s2 is spec:
            break
        if s2.get('_c19_extra'):
            callees[s2['qualname']] = s2['_c19_extra']
    for cname, cextra in callees.items():
        for n in ast.walk(f):
            if isinstance(n, ast.Call) and isinstance(n.func, ast.Name) and n.func.id == cname:
                if n.keywords or len(n.args) != 1 or not (isinstance(n.args[0], ast.Name) and n.args[0].id in texts):
                    raise Unsupported(n, 'call of %s on something else than a declared text parameter' % cname)
                if any(isinstance(m, ast.Name) and m.id == n.args[0].id and not isinstance(m.ctx, ast.Load)
                       for m in ast.walk(f)):
                    raise Unsupported(n, 'the text parameter passed to %s is rebound' % cname)
                for p in cextra:
                    if p not in extra:
                        if p in {a.arg for a in f.args.args} or any(isinstance(m, ast.Name) and m.id == p for m in ast.walk(f)):
                            raise Unsupported(n, 'the name %s reserved for the regex operation is used by the source' % p)
                        extra.append(p)
                    n.args.append(ast.Name(id=p, ctx=ast.Load()))
                n.func = ast.copy_location(ast.Name(id=OP + 'call:' + cname, ctx=ast.Load()), n.func)
                notes.add('c19:callee-param')
    # L5: predicate parameters
    preds = dict(cfg.get('pred') or {})
    for pn, opn in preds.items():
        if pn not in {a.arg for a in f.args.args}:
            raise Unsupported(f, 'the declared predicate parameter %s is missing' % pn)
        if any(isinstance(n, ast.Name) and n.id == pn and not isinstance(n.ctx, ast.Load) for n in ast.walk(f)):
            raise Unsupported(f, 'the predicate parameter %s is rebound' % pn)
    # L7: defaults dropped
    if f.args.defaults or f.args.kw_defaults:
        notes.add('c19:defaults-dropped')
    f.args.defaults, f.args.kw_defaults = [], [None] * len(f.args.kwonlyargs)
    f.args.args = [a for a in f.args.args if a.arg not in preds]
    if preds:
        notes.add('c19:predicate-param')
    # L2 / L3 / L5 / L6
    rw = _Rewrite(mvars, group, whole, bool(cfg.get('poly_text')))
    rw.texts = set(texts) | set(cfg.get('text_params', []))
    rw.preds, rw.join_on = preds, (set(texts) | set(cfg.get('text_params', []))) if cfg.get('join') else set()
    f.body = [rw.visit(st) for st in f.body]
    notes.update(rw.notes)
    # every remaining occurrence of a match variable must be the loop target or one produced by L2
    for n in ast.walk(f):
        if isinstance(n, ast.Name) and n.id in mvars and isinstance(n.ctx, ast.Load) and not getattr(n, '_c19_ok', False):
            raise Unsupported(n, 'the match object %s is used otherwise than through start/end/span of group %d' % (n.id, group))
    for n in ast.walk(f):
        if isinstance(n, ast.Name) and n.id in preds:
            raise Unsupported(n, 'the predicate parameter %s is used otherwise than as %s(<expr>)' % (n.id, n.id))
    for p in extra:
        f.args.args.append(ast.arg(arg=p))
    spec['_c19_extra'] = list(extra)
    ast.fix_missing_locations(f)
    return f


def alias_nodes(fn, value):
    return ast.walk(value)


def translate_op(ex, node, expected):
    name = node.func.id[len(OP):] if node.func.id.startswith(OP) else None
    if name is not None and name.startswith('call:'):
        # L4: a total, translated function of the same group, emitted before this one
        callee = [s2 for s2 in ex.fn.spec.get('_c19_group') or [] if s2['qualname'] == name[5:]]
        if len(callee) != 1 or callee[0].get('raises') or callee[0].get('cls') \
                or (ex.fn.emitted is not None and callee[0]['lean_name'] not in ex.fn.emitted):
            raise Unsupported(node, 'call of %s, which is not a total function translated before this one' % name[5:])
        cs = callee[0]
        if node.keywords or len(node.args) != len(cs['params']):
            raise Unsupported(node, 'call arity')
        terms = []
        for a, pt in zip(node.args, cs['params'].values()):
            e, t = ex.expr(a, py2lean.parse_type(pt))
            if t != py2lean.parse_type(pt):
                raise Unsupported(a, 'argument of type %s where %s is declared' % (t, pt))
            terms.append(py2lean.FnTranslator._atom(e))
        rt = py2lean.parse_type(cs['result'])
        return '(%s %s)' % (cs['lean_name'], ' '.join(terms)), (('List', rt) if cs['kind'] == 'generator' else rt)
    if name == 'bytes':
        # B3: a bytes literal is the list of its byte values
        if len(node.args) != 1 or not (isinstance(node.args[0], ast.Constant) and isinstance(node.args[0].value, bytes)):
            raise Unsupported(node, 'bytes literal expected')
        return '(PyRtC19.bytesLit [%s] : List β)' % ', '.join(str(b) for b in node.args[0].value), BYTES_T
    if name == 'text':
        # J9: a str literal (lines of kind str) is the list of its code points, items of β
        if len(node.args) != 1 or not (isinstance(node.args[0], ast.Constant) and isinstance(node.args[0].value, str)):
            raise Unsupported(node, 'str literal expected')
        return '(PyRtC19.bytesLit [%s] : List β)' % ', '.join(str(ord(c)) for c in node.args[0].value), BYTES_T
    if name not in OPS or node.keywords:
        raise Unsupported(node, 'unknown operation %s' % node.func.id)
    ptypes, rtype, lean = OPS[name][:3]
    raises = len(OPS[name]) > 3 and OPS[name][3]
    if raises and not ex.fn.raises:
        raise Unsupported(node, 'a raising operation outside the raising mode')
    if len(node.args) != len(ptypes):
        raise Unsupported(node, 'operation arity')
    terms = []
    for a, pt in zip(node.args, ptypes):
        e, t = ex.expr(a, py2lean.parse_type(pt))
        if t != py2lean.parse_type(pt):
            raise Unsupported(a, 'operation %s: argument of type %s where %s is declared' % (name, t, pt))
        terms.append(py2lean.FnTranslator._atom(e))
    if raises:
        return ex.partial('%s %s' % (lean, ' '.join(terms)), node), py2lean.parse_type(rtype)
    return '(%s %s)' % (lean, ' '.join(terms)), py2lean.parse_type(rtype)


# --------------------------------------------------------------------------------------------------- translate

def translate_module(module_name, specs, repo):
    """-> (Lean text of the generated file, infos): the base translator on the specs, with `prepass` as its extension"""
    for sp in specs:
        sp['_c19_group'] = specs     # L4 reads the extra parameters the earlier functions of the group were given
        sp.pop('_c19_extra', None)
    text, infos = py2lean.translate_module(module_name, specs, repo)
    for sp, info in zip(specs, infos):
        info['declared_operations'] = {p: 'spans (start, end) of group %d of %s.finditer(<text>)' % (
            _cfg(sp).get('group', 1), r) for r, p in (_cfg(sp).get('regex') or {}).items() if p in (sp.get('_c19_extra') or [])}
        for p in sp.get('_c19_extra') or []:
            info['declared_operations'].setdefault(p, 'the regex parameter of a callee, applied to the same text')
    return text, infos


# --------------------------------------------------------------------------------------------------- self-test
# CPython vs the generated definitions + the runtime's meaning of the declared operations, on every run.
# Per function (`DRIVERS[lean_name]`): how a test case is encoded for the scratch Lean driver, what the driver
# evaluates, and what CPython must give.

_DRV_HEAD = r'''
def showInts (l : List Int) : String := " ".intercalate (l.map toString)
def parseInts (s : String) : Option (List Int) :=
  ((s.trim.splitOn " ").filter (· ≠ "")).mapM String.toInt?

/-- `n x1 .. xn rest` -> (the n items, rest) -/
def takeN : List Int → Option (List Int × List Int)
  | [] => none
  | n :: r => if n < 0 ∨ r.length < n.toNat then none else some (r.take n.toNat, r.drop n.toNat)

def pairsOf : List Int → List (Int × Int)
  | a :: b :: r => (a, b) :: pairsOf r
  | _ => []

def encLines (ls : List (List Nat)) : List Int :=
  (ls.length : Int) :: (ls.map (fun l => (l.length : Int) :: l.map (fun (c : Nat) => (c : Int)))).flatten

def encSpans (ps : List (Int × Int)) : List Int :=
  (ps.length : Int) :: (ps.map (fun p => [p.1, p.2])).flatten
'''

_DRV_TAIL = r'''
partial def loop (h : IO.FS.Stream) (out : IO.FS.Stream) : IO Unit := do
  let line ← h.getLine
  if line.isEmpty then return
  match parseInts line with
  | some l => out.putStrLn ("R " ++ handle l)
  | none => out.putStrLn "R bad-line"
  loop h out

def main : IO Unit := do
  loop (← IO.getStdin) (← IO.getStdout)
'''

# case id 0: `0 <text> <spans as flat pairs>`  ->  the generated iter_splitlines on (text, spans) ++ the runtime's
#            finditerSpans of the regenerated table on the text
_DRV_CASES = {
    'iter_splitlines': r'''
  | 0 :: r =>
    match takeN r with
    | some (t, r2) =>
      match takeN r2 with
      | some (sp, _) =>
        let text := t.map Int.toNat
        showInts (encLines (Src.strutils.iter_splitlines text (pairsOf sp)) ++
                  encSpans (PyRtC19.finditerSpans C19.Generated.lineEndings text))
      | none => "bad"
    | none => "bad"
''',
}

_DRV_CASES['indent'] = r'''
  | 1 :: ki :: r =>
    match takeN r with
    | some (t, r2) =>
      match takeN r2 with
      | some (mg, r3) =>
        match takeN r3 with
        | some (nl, r4) =>
          match takeN r4 with
          | some (sp, _) =>
            let text := t.map Int.toNat
            showInts ((@Src.strutils.indent Nat ⟨keyMenu ki⟩ text (mg.map Int.toNat) (nl.map Int.toNat) (pairsOf sp)).map
              (fun (c : Nat) => (c : Int)))
          | none => "bad"
        | none => "bad"
      | none => "bad"
    | none => "bad"
'''

# case id 2: `2 lfuel preseek pos blocksize <data>` -> the generated reverse_iter_lines at β = Nat on the abstract file
_DRV_CASES['reverse_iter_lines'] = r'''
  | 2 :: lf :: ps :: pos :: bs :: r =>
    match takeN r with
    | some (d, _) =>
      match Src.jsonutils.reverse_iter_lines (β := Nat) lf.toNat (d.map Int.toNat) pos bs (ps != 0) with
      | .ok ls => showInts (1 :: encLines ls)
      | .error _ => "0"
    | none => "bad"
'''

# case id 3: `3 lfuel preseek pos blocksize <data>` -> the generated reverse_iter_lines_text (text mode, encoding='utf-8') at
#            β = Nat on the abstract file; a line is the list of the code points of its characters
_DRV_CASES['reverse_iter_lines_text'] = r'''
  | 3 :: lf :: ps :: pos :: bs :: r =>
    match takeN r with
    | some (d, _) =>
      match Src.jsonutils.reverse_iter_lines_text (β := Nat) lf.toNat (d.map Int.toNat) pos bs (ps != 0) with
      | .ok ls => showInts (1 :: encLines (ls.map (fun l => l.map Char.toNat)))
      | .error PyExc.ValueError => "0 ValueError"
      | .error _ => "0 other"
    | none => "bad"
'''

# case id 4: `4 lfuel ignore_errors n <line>*n` -> next() of the generated JSONLIterator_next called until it raises, at β = Nat with
#            the fake `json.loads` of the self-test (FAKE_LOADS below = the instance here): the objects, then how it ended
_DRV_PRE = {'JSONLIterator_next': r'''
instance : PyRtC19.JsonLoads Nat Int := ⟨fun b => match b with
  | 120 :: _ => .error PyExc.ValueError
  | 121 :: _ => .error PyExc.KeyError
  | 122 :: _ => .error PyExc.TypeError
  | _ => .ok (((b.foldl (· + ·) 0 : Nat) : Int) * 31 + (b.length : Int))⟩

def takeLines : Nat → List Int → List (List Nat)
  | 0, _ => []
  | n + 1, r => match takeN r with
    | some (l, r2) => l.map Int.toNat :: takeLines n r2
    | none => []

partial def drainNext (fuel : Nat) (ig : Bool) (ls : List (List Nat)) (acc : List Int) : String :=
  match Src.jsonutils.JSONLIterator_next (β := Nat) fuel ls ig with
  | .ok (v, rest) => drainNext fuel ig rest (acc ++ [v])
  | .error PyExc.StopIteration => showInts acc ++ " S"
  | .error PyExc.ValueError => showInts acc ++ " E ValueError"
  | .error PyExc.KeyError => showInts acc ++ " E KeyError"
  | .error PyExc.TypeError => showInts acc ++ " E TypeError"
  | .error _ => showInts acc ++ " E other"
'''}
_DRV_CASES['JSONLIterator_next'] = r'''
  | 4 :: lf :: ig :: n :: r => drainNext lf.toNat (ig != 0) (takeLines n.toNat r) []
'''
# case id 5: the same for the str kind (a line is the list of its code points; the same fake json.loads on code points)
_DRV_PRE['JSONLIterator_next_text'] = r'''
partial def drainNextT (fuel : Nat) (ig : Bool) (ls : List (List Nat)) (acc : List Int) : String :=
  match Src.jsonutils.JSONLIterator_next_text (β := Nat) fuel ls ig with
  | .ok (v, rest) => drainNextT fuel ig rest (acc ++ [v])
  | .error PyExc.StopIteration => showInts acc ++ " S"
  | .error PyExc.ValueError => showInts acc ++ " E ValueError"
  | .error PyExc.KeyError => showInts acc ++ " E KeyError"
  | .error PyExc.TypeError => showInts acc ++ " E TypeError"
  | .error _ => showInts acc ++ " E other"
'''
_DRV_CASES['JSONLIterator_next_text'] = r'''
  | 5 :: lf :: ig :: n :: r => drainNextT lf.toNat (ig != 0) (takeLines n.toNat r) []
'''

# the menu of `key` predicates of the indent cases: index -> (Python callable, the same predicate in the Lean driver)
KEY_MENU = [bool, lambda l: True, lambda l: False, lambda l: l[:1] == 'a', lambda l: len(l) % 2 == 0]
_DRV_KEYS = r'''
def keyMenu : Int → List Nat → Bool
  | 0 => fun l => !l.isEmpty
  | 1 => fun _ => true
  | 2 => fun _ => false
  | 3 => fun l => l.head? == some 97
  | _ => fun l => l.length % 2 == 0
'''

ALPHABET = [10, 13, 11, 12, 0x85, 0x2028, 0x2029, 0x1c, 0x1d, 0x1e, 0x20, 0x61, 0x62, 0x7a, 0xe9, 0x1F600, 0xD800, 0]


def _texts(rng, quick):
    out = ['', '\n', '\r\n', '\r', 'a', 'a\n', '\na', '\r\n\r\n', '\n\r', 'a\r\nb\rc\nd', '\x0b\x0c\x85  ',
           'ab\r', '\r\r\n\n', 'x ', '\x1c\x1d\x1e\n']
    n = 300 if quick else 4000
    for _ in range(n):
        k = rng.choice([0, 1, 2, 3, 4, 6, 9, 14, 30])
        w = rng.choice([1, 2, 5])           # weight of the break characters
        out.append(''.join(chr(rng.choice(ALPHABET[:7] * w + ALPHABET)) for _ in range(k)))
    return out


def _enc_text(s):
    return [len(s)] + [ord(c) for c in s]


def _enc_lines(ls):
    out = [len(ls)]
    for l in ls:
        out += [len(l)] + [ord(c) for c in l]
    return out


def _real_spans(mod, spec, text):
    cfg = _cfg(spec)
    (rname, _p), = list((cfg.get('regex') or {}).items())
    g = cfg.get('group', 1)
    return [(m.start(g), m.end(g)) for m in getattr(mod, rname).finditer(text)]


def _cases_iter_splitlines(mod, spec, rng, quick):
    """-> [(input tokens, expected output tokens, description)]"""
    out = []
    for t in _texts(rng, quick):
        spans = _real_spans(mod, spec, t)
        try:
            want = _enc_lines(list(mod.iter_splitlines(t)))
        except Exception as e:      # noqa: BLE001 - the generated definition is total: any exception is a mismatch
            want = ['exc', type(e).__name__]
        flat = [x for p in spans for x in p]
        out.append(([0] + _enc_text(t) + [len(flat)] + flat, want + [len(spans)] + flat, repr(t)))
    return out


def _cases_indent(mod, spec, rng, quick):
    out = []
    import srctie_specs
    sp0 = [s2 for s2 in srctie_specs.SPECS['C19'] if s2['qualname'] == 'iter_splitlines'][0]
    for t in _texts(rng, quick):
        spans = _real_spans(mod, sp0, t)
        flat = [x for p in spans for x in p]
        ki = rng.randrange(len(KEY_MENU))
        margin = rng.choice(['', ' ', '  ', '\t', '> ', 'a'])
        newline = rng.choice(['\n', '\n', '\r\n', '', '|'])
        try:
            want = [ord(c) for c in mod.indent(t, margin, newline, KEY_MENU[ki])]
        except Exception as e:      # noqa: BLE001
            want = ['exc', type(e).__name__]
        out.append(([1, ki] + _enc_text(t) + _enc_text(margin) + _enc_text(newline) + [len(flat)] + flat, want,
                    repr((t, margin, newline, ki))))
    return out


BYTE_ALPHABET = [10, 13, 10, 13, 10, 0x61, 0x62, 0x20, 0, 0x85, 0x0b, 0x0c, 0xff, 0x7b]


def _cases_reverse_iter_lines(mod, spec, rng, quick):
    import io
    out = []
    fixed = [b'', b'\n', b'a', b'a\n', b'\na', b'\r\n', b'a\r\nb\rc\nd', b'\n\n\n', b'ab\n\ncd', b'\r', b'x\r\r\ny\n',
             b'\x0b\x0c\x85\n', b'{"a": 1}\n{"b": 2}\n']
    datas = list(fixed)
    for _ in range(300 if quick else 4000):
        k = rng.choice([0, 1, 2, 3, 5, 8, 13, 21, 40])
        datas.append(bytes(rng.choice(BYTE_ALPHABET) for _ in range(k)))
    for d in datas:
        bs = rng.choice([1, 1, 2, 3, 4, 7, 16, 4096])
        preseek = rng.random() < 0.5
        pos = rng.randrange(0, len(d) + 3) if rng.random() < 0.8 else 0
        f = io.BytesIO(d)
        f.seek(pos)
        try:
            want = [1] + _enc_bytes_lines(list(mod.reverse_iter_lines(f, blocksize=bs, preseek=preseek)))
        except Exception as e:      # noqa: BLE001
            want = [0]
        out.append(([2, max(len(d), pos) + 2, int(preseek), pos, bs] + [len(d)] + list(d), want, repr((d, bs, preseek, pos))))
    return out


# UTF-8 material: ASCII, 2/3/4-byte characters, and every kind of malformed sequence (lone continuation, truncated,
# over-long, surrogate, above U+10FFFF, 0xC0/0xC1/0xF5+ lead bytes)
UTF8_PIECES = [b'a', b'b', b' ', b'\n', b'\n', b'\r\n', b'\r', '\xe9'.encode(), '\u20ac'.encode(), '\U0001F600'.encode(),
               '\x85'.encode(), '\u2028'.encode(), '\ud7ff'.encode(), '\ue000'.encode(), '\U0010ffff'.encode(), '\x7f'.encode(),
               '\x80'.encode(), '\u07ff'.encode(), '\u0800'.encode(), '\uffff'.encode(), '\U00010000'.encode(),
               b'\x80', b'\xbf', b'\xc3', b'\xe2\x82', b'\xf0\x9f\x98', b'\xc0\x80', b'\xc1\xbf', b'\xe0\x80\x80',
               b'\xe0\x9f\xbf', b'\xed\xa0\x80', b'\xed\xbf\xbf', b'\xf0\x80\x80\x80', b'\xf0\x8f\xbf\xbf',
               b'\xf4\x90\x80\x80', b'\xf5\x80\x80\x80', b'\xff', b'\xfe', b'\xc3\x28', b'\xe2\x28\xa1', b'\xf0\x28\x8c\xbc']


def _cases_reverse_iter_lines_text(mod, spec, rng, quick):
    """text mode: `encoding='utf-8'` given, the file a binary file object without `.encoding` (io.BytesIO)"""
    import io
    out = []
    fixed = [b'', b'\n', b'a', b'a\n', b'\na', b'\r\n', 'h\xe9\nw\u20ac\r\n\U0001F600'.encode(), b'ok\n\xff\nok2\n', b'\xff\nok\n',
             b'ok\n\xed\xa0\x80', '\u2028x\x85y\n'.encode(), b'\xc3\n\xa9']
    datas = list(fixed)
    for _ in range(300 if quick else 4000):
        k = rng.choice([0, 1, 2, 3, 4, 6, 9, 14])
        if rng.random() < 0.5:        # well-formed more often than not, so that long .ok results are compared too
            datas.append(b''.join(rng.choice(UTF8_PIECES[:21]) for _ in range(k)))
        else:
            datas.append(b''.join(rng.choice(UTF8_PIECES) for _ in range(k)))
    for d in datas:
        bs = rng.choice([1, 1, 2, 3, 4, 7, 16, 4096])
        preseek = rng.random() < 0.5
        pos = rng.randrange(0, len(d) + 3) if rng.random() < 0.8 else 0
        f = io.BytesIO(d)
        f.seek(pos)
        try:
            ls = list(mod.reverse_iter_lines(f, blocksize=bs, preseek=preseek, encoding='utf-8'))
            if not all(isinstance(l, str) for l in ls):
                raise TypeError('a line that is not a str')
            want = [1] + _enc_lines(ls)
        except ValueError:              # UnicodeDecodeError is a ValueError
            want = [0, 'ValueError']
        except Exception:      # noqa: BLE001
            want = [0, 'other']
        out.append(([3, max(len(d), pos) + 2, int(preseek), pos, bs] + [len(d)] + list(d), want, repr((d, bs, preseek, pos))))
    return out


def FAKE_LOADS(b):
    """the `json.loads` of the JSONLIterator.next cases: a pure function of the line with three ways of raising"""
    if not isinstance(b, bytes):
        raise AssertionError('json.loads was handed %r' % (b,))
    if b[:1] == b'x':
        raise ValueError('x')
    if b[:1] == b'y':
        raise KeyError('y')
    if b[:1] == b'z':
        raise TypeError('z')
    return sum(b) * 31 + len(b)


JSONL_PIECES = [b'a', b'x', b'y', b'z', b' ', b' ', b'\t', b'\n', b'\r', b'\r\n', b'\x0b', b'\x0c', b'\x1c', b'\x85', b'\xa0', b'{', b'1', b'\x00']


def _cases_jsonl_next(mod, spec, rng, quick):
    """`next()` until it raises, on an object whose `_line_iter` yields the given lines; half of the line lists are what
    iterating an io.BytesIO (forward mode) / reverse_iter_lines (reverse mode) yields for a random content"""
    import io
    import types
    out = []
    real_json = mod.json
    mod.json = types.SimpleNamespace(loads=FAKE_LOADS)
    try:
        for i in range(300 if quick else 4000):
            k = rng.choice([0, 1, 2, 3, 5, 8])
            mode = rng.choice(['lines', 'lines', 'forward', 'reverse'])
            if mode == 'lines':
                lines = [b''.join(rng.choice(JSONL_PIECES) for _ in range(rng.choice([0, 1, 2, 3, 5]))) for _ in range(k)]
            else:
                d = b''.join(rng.choice(JSONL_PIECES + [b'\n', b'\n']) for _ in range(k * 3))
                lines = list(io.BytesIO(d)) if mode == 'forward' else list(mod.reverse_iter_lines(io.BytesIO(d), blocksize=rng.choice([1, 3, 4096])))
            ignore = rng.random() < 0.5
            if mode == 'lines':
                it = mod.JSONLIterator.__new__(mod.JSONLIterator)
                it._line_iter = iter(list(lines))
                it.ignore_errors = ignore
            else:
                it = mod.JSONLIterator(io.BytesIO(d), ignore_errors=ignore, reverse=(mode == 'reverse'))
            want = []
            while True:
                try:
                    want.append(mod.JSONLIterator.next(it))
                except StopIteration:
                    want.append('S')
                    break
                except (ValueError, KeyError, TypeError) as e:
                    want += ['E', type(e).__name__]
                    break
                except Exception:      # noqa: BLE001
                    want += ['E', 'other']
                    break
            toks = [4, len(lines) + 1, int(ignore), len(lines)]
            for l in lines:
                toks += [len(l)] + list(l)
            out.append((toks, want, repr((mode, lines, ignore))))
    finally:
        mod.json = real_json
    return out


def FAKE_LOADS_T(t):
    """FAKE_LOADS on a str line (the same function of the code points)"""
    if not isinstance(t, str):
        raise AssertionError('json.loads was handed %r' % (t,))
    if t[:1] == 'x':
        raise ValueError('x')
    if t[:1] == 'y':
        raise KeyError('y')
    if t[:1] == 'z':
        raise TypeError('z')
    return sum(ord(c) for c in t) * 31 + len(t)


JSONL_PIECES_T = ['a', 'x', 'y', 'z', ' ', ' ', '\t', '\n', '\r', '\r\n', '\x0b', '\x0c', '\x1c', '\x1d', '\x1e', '\x1f', '\x85', '\xa0',
                  '\u1680', '\u2000', '\u200a', '\u200b', '\u2028', '\u2029', '\u202f', '\u205f', '\u3000', '\ufeff', '{', '1', '\x00',
                  '\U0001F600', '\x1b', '\u180e']


def _cases_jsonl_next_text(mod, spec, rng, quick):
    """the str kind: `next()` until it raises, on an object whose `_line_iter` yields the given str lines; half of the
    line lists are what iterating an io.StringIO yields"""
    import io
    import types
    out = []
    real_json = mod.json
    mod.json = types.SimpleNamespace(loads=FAKE_LOADS_T)
    try:
        for i in range(300 if quick else 4000):
            k = rng.choice([0, 1, 2, 3, 5, 8])
            mode = rng.choice(['lines', 'forward'])
            if mode == 'lines':
                lines = [''.join(rng.choice(JSONL_PIECES_T) for _ in range(rng.choice([0, 1, 2, 3, 5]))) for _ in range(k)]
            else:
                d = ''.join(rng.choice(JSONL_PIECES_T + ['\n', '\n']) for _ in range(k * 3))
                lines = list(io.StringIO(d))
            ignore = rng.random() < 0.5
            if mode == 'lines':
                it = mod.JSONLIterator.__new__(mod.JSONLIterator)
                it._line_iter = iter(list(lines))
                it.ignore_errors = ignore
            else:
                it = mod.JSONLIterator(io.StringIO(d), ignore_errors=ignore)
            want = []
            while True:
                try:
                    want.append(mod.JSONLIterator.next(it))
                except StopIteration:
                    want.append('S')
                    break
                except (ValueError, KeyError, TypeError) as e:
                    want += ['E', type(e).__name__]
                    break
                except Exception:      # noqa: BLE001
                    want += ['E', 'other']
                    break
            toks = [5, len(lines) + 1, int(ignore), len(lines)]
            for l in lines:
                toks += [len(l)] + [ord(c) for c in l]
            out.append((toks, want, repr((mode, lines, ignore))))
    finally:
        mod.json = real_json
    return out


def _enc_bytes_lines(ls):
    out = [len(ls)]
    for l in ls:
        if not isinstance(l, bytes):
            raise TypeError('a line that is not bytes: %r' % (l,))
        out += [len(l)] + list(l)
    return out


CASES = {'iter_splitlines': _cases_iter_splitlines, 'indent': _cases_indent, 'reverse_iter_lines': _cases_reverse_iter_lines,
         'reverse_iter_lines_text': _cases_reverse_iter_lines_text, 'JSONLIterator_next': _cases_jsonl_next,
         'JSONLIterator_next_text': _cases_jsonl_next_text}


def selftest(pids, quick=False, seed=0, verbose=True):
    """-> (number of mismatches, report)"""
    import importlib
    import srctie_specs
    from bv import common
    common.ensure_repo_on_path()
    t0 = time.time()
    specs = [sp for pid in pids for sp in srctie_specs.SPECS.get(pid, []) if sp.get('translator') == 'py2lean_c19']
    files, infos = {}, []
    for pid in pids:
        f, i = py2lean.generate(pid, common.REPO)
        files.update(f)
        infos.extend(i)
    ok = {i['lean_def'].split('.', 2)[2] for i in infos if not i.get('error')}
    rng = random.Random('py2lean-c19-selftest-%d' % seed)
    lines, meta, arms, imports, pre = [], [], [], set(), []
    for sp in specs:
        name = sp['lean_name']
        if name not in ok or name not in CASES:
            continue
        mod = importlib.import_module(sp['module'])
        arms.append(_DRV_CASES[name])
        pre.append(_DRV_PRE.get(name, ''))
        imports.add('BoltonsVerif.Generated.Src_%s' % (sp.get('gen_file') or sp['module'].split('.')[-1]))
        for toks, want, what in CASES[name](mod, sp, rng, quick):
            lines.append(' '.join(map(str, toks)))
            meta.append((name, want, what))
    report = {'_mismatches': []}
    if not lines:
        return 0, report
    src = ''.join('import %s\n' % m for m in sorted(imports)) + 'import BoltonsVerif.Generated.C19_LineEndings\n' \
        'import BoltonsVerif.PyRtC19\n' + _DRV_HEAD + _DRV_KEYS + ''.join(pre) + '\ndef handle : List Int → String\n' + ''.join(arms) \
        + '  | _ => "bad"\n' + _DRV_TAIL
    tmp = tempfile.mkdtemp(prefix='py2lean-c19-selftest-')
    try:
        drv = os.path.join(tmp, 'SrcSelfTestC19.lean')
        with open(drv, 'w') as fh:
            fh.write(src)
        with common.BuildLock():
            rc, out = common._run(['lake', 'build', 'BoltonsVerif.PyRtC19', 'BoltonsVerif.Generated.C19_LineEndings']
                                  + sorted(imports))
        if rc != 0:
            raise common.InfraError('cannot build the generated C19 definitions: ' + out[-800:])
        t1 = time.time()
        p = subprocess.run(['lake', 'env', 'lean', '--run', drv], cwd=common.LEAN, input='\n'.join(lines) + '\n',
                           stdout=subprocess.PIPE, stderr=subprocess.STDOUT, text=True, timeout=1800)
        t_lean = time.time() - t1
    finally:
        shutil.rmtree(tmp, ignore_errors=True)
    outs = [ln[2:] for ln in p.stdout.split('\n') if ln.startswith('R ')]
    if p.returncode != 0 or len(outs) != len(lines):
        raise common.InfraError('C19 scratch driver failed (rc %s, %d lines for %d inputs): %s' % (
            p.returncode, len(outs), len(lines), p.stdout[-1500:]))
    mismatches = []
    for (name, want, what), got in zip(meta, outs):
        r = report.setdefault(name, {'cases': 0, 'compared': 0, 'mismatches': 0})
        r['cases'] += 1
        r['compared'] += 1
        if got.split() != [str(x) for x in want]:
            r['mismatches'] += 1
            mismatches.append((name, what, 'Python stream %s but Lean stream %s' % (' '.join(map(str, want)), got)))
    rj = reject_tests(verbose=False)       # side conditions of the front-end: every violating snippet is refused
    report['_reject_tests'] = {'snippets': len(REJECT) + len(REJECT_REV) + len(REJECT_REV_TEXT) + len(REJECT_JSONL) + len(REJECT_JSONL_STR), 'not_refused': [w for w, _ in rj]}
    for what, why in rj:
        mismatches.append(('reject-test', what, str(why)))
    report['_mismatches'] = [{'function': n, 'case': c, 'what': b} for n, c, b in mismatches[:5]]
    report['_wall_s'] = round(time.time() - t0, 2)
    report['_lean_s'] = round(t_lean, 2)
    if verbose:
        for name, r in report.items():
            print(name, r)
    return len(mismatches), report


# --------------------------------------------------------------------------------------------------- reject tests
# every snippet violates ONE side condition of the rules above: the front-end + base translator must refuse it

_RJ_HEAD = "import re\n_line_ending_re = re.compile(r'(\\r\\n|\\n|\\r)')\n"
_RJ_BODY = '''
def iter_splitlines(text):
    prev_end, len_text = 0, len(text)
    for match in _line_ending_re.finditer(text):
        start, end = match.start(1), match.end(1)
        if prev_end <= start:
            yield text[prev_end:start]
        if end == len_text:
            yield ''
        prev_end = end
    tail = text[prev_end:]
    if tail:
        yield tail
'''
_RJ_INDENT = '''
def indent(text, margin, newline='\\n', key=bool):
    indented_lines = [(margin + line if key(line) else line) for line in iter_splitlines(text)]
    return newline.join(indented_lines)
'''

REJECT = [
    ('regex bound twice', _RJ_HEAD + "_line_ending_re = re.compile('x')\n" + _RJ_BODY, 0),
    ('regex not from re.compile', "import re\n_line_ending_re = make_re()\n" + _RJ_BODY, 0),
    ('regex rebound in the function', _RJ_HEAD + _RJ_BODY.replace("    prev_end, len_text", "    _line_ending_re = None\n    prev_end, len_text"), 0),
    ('match object escapes (yielded group)', _RJ_HEAD + _RJ_BODY.replace("yield ''", "yield match.group(1)"), 0),
    ('match object stored', _RJ_HEAD + _RJ_BODY.replace("        prev_end = end\n", "        prev_end = end\n        last = match\n"), 0),
    ('another group', _RJ_HEAD + _RJ_BODY.replace("match.end(1)", "match.end(2)"), 0),
    ('group 1 of a pattern without that group', "import re\n_line_ending_re = re.compile(r'\\r\\n|\\n')\n" + _RJ_BODY, 0),
    ('finditer over a derived text', _RJ_HEAD + _RJ_BODY.replace("finditer(text)", "finditer(text.lower())"), 0),
    ('finditer with pos argument', _RJ_HEAD + _RJ_BODY.replace("finditer(text)", "finditer(text, 1)"), 0),
    ('text rebound', _RJ_HEAD + _RJ_BODY.replace("    prev_end, len_text", "    text = text + text\n    prev_end, len_text"), 0),
    ('two finditer loops', _RJ_HEAD + _RJ_BODY + "    for match in _line_ending_re.finditer(text):\n        yield text[match.start(1):]\n", 0),
    ('reserved parameter name used', _RJ_HEAD + _RJ_BODY.replace("tail", "re_spans"), 0),
    ('non-empty str literal', _RJ_HEAD + _RJ_BODY.replace("yield ''", "yield 'x'"), 0),
    ('kind test against bytes', _RJ_HEAD + _RJ_BODY.replace("    prev_end, len_text", "    if isinstance(text, bytes):\n        return\n    prev_end, len_text"), 0),
    ('match unpacked by the loop', _RJ_HEAD + _RJ_BODY.replace("for match in", "for match, other in"), 0),
    ('str method on the text', _RJ_HEAD + _RJ_BODY.replace("if tail:", "if tail.strip():"), 0),
    ('predicate rebound', _RJ_HEAD + _RJ_BODY + _RJ_INDENT.replace("    indented_lines", "    key = key or bool\n    indented_lines"), 1),
    ('predicate passed on', _RJ_HEAD + _RJ_BODY + _RJ_INDENT.replace("key(line) else", "all(map(key, [line])) else"), 1),
    ('predicate with two arguments', _RJ_HEAD + _RJ_BODY + _RJ_INDENT.replace("key(line)", "key(line, margin)"), 1),
    ('callee on a derived text', _RJ_HEAD + _RJ_BODY + _RJ_INDENT.replace("iter_splitlines(text)", "iter_splitlines(text + margin)"), 1),
    ('join on a non-text', _RJ_HEAD + _RJ_BODY + _RJ_INDENT.replace("newline.join", "key.join"), 1),
]


_RJ_REV = '''import io
import os
def reverse_iter_lines(file_obj, blocksize=4096, preseek=True, encoding=None):
    try:
        encoding = encoding or file_obj.encoding
    except AttributeError:
        encoding = None
    orig_obj = file_obj
    try:
        file_obj = orig_obj.detach()
    except (AttributeError, io.UnsupportedOperation):
        pass
    empty_bytes, newline_bytes, empty_text = b'', b'\\n', ''
    if preseek:
        file_obj.seek(0, os.SEEK_END)
    buff = empty_bytes
    cur_pos = file_obj.tell()
    while 0 < cur_pos:
        read_size = min(blocksize, cur_pos)
        cur_pos -= read_size
        file_obj.seek(cur_pos, os.SEEK_SET)
        cur = file_obj.read(read_size)
        buff = cur + buff
        lines = buff.splitlines()
        if len(lines) < 2 or lines[0] == empty_bytes:
            continue
        if buff[-1:] == newline_bytes:
            yield empty_text if encoding else empty_bytes
        for line in lines[:0:-1]:
            yield line.decode(encoding) if encoding else line
        buff = lines[0]
    if buff:
        lines = buff.splitlines()
        if buff[-1:] == newline_bytes:
            lines.append(empty_bytes)
        for line in lines[::-1]:
            yield line.decode(encoding) if encoding else line
'''


def _rv(old, new):
    assert _RJ_REV.count(old) >= 1, old
    return _RJ_REV.replace(old, new, 1)


REJECT_REV = [
    ('None parameter assigned', lambda: _rv("    if preseek:", "    encoding = 'utf-8'\n    if preseek:")),
    ('None parameter used as a value', lambda: _rv("yield line.decode(encoding) if encoding else line\n        buff", "yield line.decode(encoding)\n        buff")),
    ('None probe with another handler body', lambda: _rv("    except AttributeError:\n        encoding = None", "    except AttributeError:\n        encoding = 'ascii'")),
    ('file object passed on', lambda: _rv("    buff = empty_bytes", "    print(file_obj)\n    buff = empty_bytes")),
    ('file object rebound', lambda: _rv("    buff = empty_bytes", "    file_obj = io.BytesIO(b'')\n    buff = empty_bytes")),
    ('seek relative to the end', lambda: _rv("file_obj.seek(0, os.SEEK_END)", "file_obj.seek(-1, os.SEEK_END)")),
    ('seek relative to the position', lambda: _rv("file_obj.seek(cur_pos, os.SEEK_SET)", "file_obj.seek(cur_pos, os.SEEK_CUR)")),
    ('read without a size', lambda: _rv("file_obj.read(read_size)", "file_obj.read()")),
    ('read inside an expression', lambda: _rv("        cur = file_obj.read(read_size)\n        buff = cur + buff", "        buff = file_obj.read(read_size) + buff")),
    ('another file method', lambda: _rv("cur = file_obj.read(read_size)", "cur = file_obj.readline(read_size)")),
    ('detach alias used later', lambda: _rv("    if buff:\n", "    orig_obj.close()\n    if buff:\n")),
    ('reserved name used', lambda: _rv("    buff = empty_bytes", "    file_data = 1\n    buff = empty_bytes")),
    ('appended-to list aliased', lambda: _rv("        if buff[-1:] == newline_bytes:\n            lines.append", "        other = lines\n        if buff[-1:] == newline_bytes:\n            lines.append")),
    ('appended-to list bound to a display', lambda: _rv("        lines = buff.splitlines()\n        if buff[-1:] == newline_bytes:\n            lines.append", "        lines = [buff]\n        if buff[-1:] == newline_bytes:\n            lines.append")),
    ('slice with another step', lambda: _rv("lines[::-1]", "lines[::-2]")),
    ('reversed slice with a lower bound', lambda: _rv("lines[:0:-1]", "lines[3:0:-1]")),
    ('index 1 in the guarded test', lambda: _rv("lines[0] == empty_bytes", "lines[1] == empty_bytes")),
    ('guard that does not guarantee an item', lambda: _rv("len(lines) < 2 or", "len(lines) < 0 or")),
    ('splitlines with keepends', lambda: _rv("lines = buff.splitlines()\n        if len", "lines = buff.splitlines(True)\n        if len")),
    ('splitlines of a str', lambda: _rv("lines = buff.splitlines()\n        if len", "lines = 'a b'.splitlines()\n        if len")),
]

# text mode (round 3f): the spec of index 1 (`reverse_iter_lines_text`, `encoding` declared the codec name 'utf-8')
REJECT_REV_TEXT = [
    ('codec parameter assigned', lambda: _rv("    if preseek:", "    encoding = 'latin-1'\n    if preseek:")),
    ('codec parameter passed on', lambda: _rv("    buff = empty_bytes", "    print(encoding)\n    buff = empty_bytes")),
    ('codec parameter compared', lambda: _rv("    buff = empty_bytes", "    if encoding == 'utf-16':\n        return\n    buff = empty_bytes")),
    ('decode with an errors argument', lambda: _rv("yield line.decode(encoding) if encoding else line\n        buff", "yield line.decode(encoding, 'replace') if encoding else line\n        buff")),
    ('decode with a keyword', lambda: _rv("yield line.decode(encoding) if encoding else line\n        buff", "yield line.decode(encoding=encoding) if encoding else line\n        buff")),
    ('decode with another codec', lambda: _rv("yield line.decode(encoding) if encoding else line\n        buff", "yield line.decode('latin-1') if encoding else line\n        buff")),
    ('decode without a codec', lambda: _rv("yield line.decode(encoding) if encoding else line\n        buff", "yield line.decode() if encoding else line\n        buff")),
    ('probe that reads the attribute first', lambda: _rv("encoding = encoding or file_obj.encoding", "encoding = file_obj.encoding or encoding")),
    ('a bytes line yielded in text mode', lambda: _rv("yield line.decode(encoding) if encoding else line\n        buff", "yield line\n        buff")),
]

# JSONLIterator.next (round 3f, J-rules)
_RJ_JSONL = '''import json
class JSONLIterator:
    def next(self):
        while 1:
            line = next(self._line_iter).lstrip()
            line = line.rstrip('\\r\\n' if isinstance(line, str) else b'\\r\\n')
            if not line:
                continue
            try:
                obj = json.loads(line)
            except Exception:
                if not self.ignore_errors:
                    raise
                continue
            return obj
'''


def _rj(old, new):
    assert _RJ_JSONL.count(old) >= 1, old
    return _RJ_JSONL.replace(old, new, 1)


REJECT_JSONL = [
    ('iterator attribute passed on', lambda: _rj("            if not line:", "            print(self._line_iter)\n            if not line:")),
    ('iterator attribute rebound', lambda: _rj("            if not line:", "            self._line_iter = iter([])\n            if not line:")),
    ('next with a default', lambda: _rj("next(self._line_iter)", "next(self._line_iter, b'')")),
    ('next inside a condition', lambda: _rj("            if not line:", "            if next(self._line_iter):\n                continue\n            if not line:")),
    ('next as an argument, not the receiver', lambda: _rj("line = next(self._line_iter).lstrip()", "line = bytes.lstrip(next(self._line_iter))")),
    ('two next in one statement', lambda: _rj("next(self._line_iter).lstrip()", "next(self._line_iter).lstrip().rstrip(next(self._line_iter))")),
    ('another attribute of self', lambda: _rj("if not self.ignore_errors:", "if not self.strict:")),
    ('flag assigned', lambda: _rj("            if not line:", "            self.ignore_errors = True\n            if not line:")),
    ('lstrip with an argument', lambda: _rj(".lstrip()", ".lstrip(b' ')")),
    ('isinstance against another class', lambda: _rj("isinstance(line, str)", "isinstance(line, bytearray)")),
    ('isinstance of something that is not a line', lambda: _rj("isinstance(line, str)", "isinstance(self, str)")),
    ('str chars on a bytes line', lambda: _rj("'\\r\\n' if isinstance(line, str) else b'\\r\\n'", "b'\\r\\n' if isinstance(line, str) else '\\r\\n'")),
    ('narrower handler', lambda: _rj("except Exception:", "except ValueError:")),
    ('handler with a name', lambda: _rj("except Exception:", "except Exception as e:")),
    ('bare except', lambda: _rj("except Exception:", "except:")),
    ('two statements in the try body', lambda: _rj("                obj = json.loads(line)\n", "                obj = json.loads(line)\n                line = obj\n")),
    ('json.loads with keywords', lambda: _rj("json.loads(line)", "json.loads(line, strict=False)")),
    ('json.loads of something else than a line', lambda: _rj("json.loads(line)", "json.loads(line + b' ')")),
    ('json rebound', lambda: _rj("        while 1:", "        json = None\n        while 1:")),
    ('handler reads the result', lambda: _rj("                continue\n            return obj", "                print(obj)\n                continue\n            return obj")),
    ('try with else', lambda: _rj("                continue\n            return obj", "                continue\n            else:\n                pass\n            return obj")),
    ('loop with a break', lambda: _rj("            if not line:\n                continue", "            if not line:\n                break")),
    ('return without a value', lambda: _rj("            return obj", "            return")),
    ('reserved name used', lambda: _rj("        while 1:", "        line_iter = 1\n        while 1:")),
    ('json.dumps', lambda: _rj("            if not line:", "            json.dumps(1)\n            if not line:")),
]

# the str kind of JSONLIterator.next (spec index 1)
REJECT_JSONL_STR = [
    ('str kind: bytes chars on a str line', lambda: _rj("'\\r\\n' if isinstance(line, str) else b'\\r\\n'", "b'\\r\\n' if isinstance(line, str) else '\\r\\n'")),
    ('str kind: a bytes literal outside the dead branch', lambda: _rj("            if not line:", "            if line == b'':\n                continue\n            if not line:")),
    ('str kind: lstrip with an argument', lambda: _rj(".lstrip()", ".lstrip(' ')")),
]


def reject_tests(verbose=True):
    """-> list of snippets that were NOT refused (must be empty); the unmodified snippet must be accepted"""
    import srctie_specs
    bad = []

    def tr(src):
        specs = [copy.deepcopy({k: v for k, v in sp.items() if not k.startswith('_')}) for sp in srctie_specs.SPECS['C19']
                 if sp['module'] == 'boltons.strutils']
        for sp in specs:
            sp['_c19_group'] = specs
        _t, infos = py2lean.translate_source(src, specs, 'boltons.strutils', '<snippet>')
        return infos
    ok = tr(_RJ_HEAD + _RJ_BODY + _RJ_INDENT)
    if any(i.get('error') for i in ok):
        bad.append(('the unmodified snippet', [i.get('error') for i in ok]))
    for what, src, idx in REJECT:
        try:
            compile(src, '<snippet>', 'exec')
        except SyntaxError as e:
            bad.append((what, 'snippet does not compile: %s' % e))
            continue
        infos = tr(src)
        if not infos[idx].get('error'):
            bad.append((what, 'accepted'))
        elif verbose:
            print('refused (%s): %s' % (what, infos[idx]['error'][:110]))

    def tr_rev(src):
        specs = [copy.deepcopy({k: v for k, v in sp.items() if not k.startswith('_')}) for sp in srctie_specs.SPECS['C19']
                 if sp['module'] == 'boltons.jsonutils' and sp['qualname'] == 'reverse_iter_lines']
        _t, infos = py2lean.translate_source(src, specs, 'boltons.jsonutils', '<snippet>')
        return infos

    def tr_jsonl(src):
        specs = [copy.deepcopy({k: v for k, v in sp.items() if not k.startswith('_')}) for sp in srctie_specs.SPECS['C19']
                 if sp['module'] == 'boltons.jsonutils' and sp['qualname'] == 'JSONLIterator.next']
        _t, infos = py2lean.translate_source(src, specs, 'boltons.jsonutils', '<snippet>')
        return infos           # [bytes kind, str kind]
    for what, mk in REJECT_JSONL_STR:
        infos = tr_jsonl(mk())
        if len(infos) < 2 or not infos[1].get('error'):
            bad.append((what, 'accepted'))
        elif verbose:
            print('refused (%s): %s' % (what, infos[1]['error'][:110]))
    ok = tr_jsonl(_RJ_JSONL)
    if any(i.get('error') for i in ok):
        bad.append(('the unmodified JSONLIterator.next snippet', [i.get('error') for i in ok]))
    for what, mk in REJECT_JSONL:
        src = mk()
        try:
            compile(src, '<snippet>', 'exec')
        except SyntaxError as e:
            bad.append((what, 'snippet does not compile: %s' % e))
            continue
        infos = tr_jsonl(src)
        if not infos[0].get('error'):
            bad.append((what, 'accepted'))
        elif verbose:
            print('refused (%s): %s' % (what, infos[0]['error'][:110]))
    ok = tr_rev(_RJ_REV)
    if any(i.get('error') for i in ok):
        bad.append(('the unmodified reverse_iter_lines snippet', [i.get('error') for i in ok]))
    for what, mk in REJECT_REV:
        src = mk()
        try:
            compile(src, '<snippet>', 'exec')
        except SyntaxError as e:
            bad.append((what, 'snippet does not compile: %s' % e))
            continue
        infos = tr_rev(src)
        if not infos[0].get('error'):
            bad.append((what, 'accepted'))
        elif verbose:
            print('refused (%s): %s' % (what, infos[0]['error'][:110]))
    for what, mk in REJECT_REV_TEXT:
        src = mk()
        try:
            compile(src, '<snippet>', 'exec')
        except SyntaxError as e:
            bad.append((what, 'snippet does not compile: %s' % e))
            continue
        infos = tr_rev(src)
        if len(infos) < 2 or not infos[1].get('error'):
            bad.append((what, 'accepted'))
        elif verbose:
            print('refused (%s): %s' % (what, infos[1]['error'][:110]))
    return bad
