"""py2lean_c08 -- OBJECT-GRAPH MODE of the source translator (round 3e, property C08).

Translates module-level functions of boltons.iterutils that walk / rebuild a graph of duck-typed objects
(`default_visit`, `default_enter`, `default_exit`, `get_path`) into Lean definitions over

  * an abstract object-reference type `V`, key / path-segment type `K` and object store `σ` (threaded: parameter `s`),
  * the SPEC-DECLARED OPERATIONS `PyRtC08.Ops σ V K` (parameter `O`): every `isinstance` test against an ABC, `cur[seg]`,
    `int(seg)`, `value.__class__()`, `ItemsView(value)`, `enumerate(value)`, `.update(..)`, `.extend(..)`, `cls(vals)`,
  * exceptions as values (`PyRtC08.Exc`, the class only).

The language is specified in notes/SRCTIE.md (section "Object-graph mode"); everything else is REFUSED (`Unsupported`):
the function is then reported as not translated and its tie theorem cannot check.  Spec keys used: `params`
({name: type}), `result`, `static_false` (isinstance tests that the declared parameter type decides), `sentinel`.

Types: V | K | Path (List K) | Pairs (List (K × V)) | Vals (List V) | OptV (Option V; `none` = the `_UNSET` sentinel)
       | KV (K × V) | EnterRes (V × Option Pairs; `False` = none) | Exc.
"""
import ast
import importlib
import inspect
import os

RT_IMPORT = 'PyRtC08'

LEAN_TY = {'V': 'V', 'K': 'K', 'Path': 'List K', 'Pairs': 'List (K × V)', 'Vals': 'List V', 'OptV': 'Option V',
           'KV': 'K × V', 'EnterRes': 'EnterRes V K', 'Exc': 'Exc'}
EXC = ['KeyError', 'IndexError', 'TypeError', 'ValueError', 'AttributeError', 'RuntimeError', 'PathAccessError']
ABC_TESTS = {'Mapping': 'isMapping', 'Sequence': 'isSequence', 'Set': 'isSet'}
KEYWORDS = {'default', 'end', 'from', 'at', 'open', 'exit', 'then', 'else', 'do', 'fun', 'let', 'have', 'show', 'match',
            'with', 'in', 'if', 'return', 'where', 'local', 'section', 'namespace', 'O', 's', 'σ', 'V', 'K', 'R', 'e'}


class Unsupported(Exception):
    def __init__(self, node, why):
        ln = getattr(node, 'lineno', None)
        super().__init__('%s%s' % (why, ' (line %s)' % ln if ln else ''))


def mangle(n):
    return n + '_' if n in KEYWORDS else n


def ind(text, n):
    pad = ' ' * n
    return '\n'.join(pad + ln if ln else ln for ln in text.split('\n'))


def terminates(stmts):
    if not stmts:
        return False
    st = stmts[-1]
    if isinstance(st, (ast.Return, ast.Raise)):
        return True
    return isinstance(st, ast.If) and terminates(st.body) and terminates(st.orelse)


def assigned(stmts):
    """names bound by assignment anywhere in the statements (loop variables included)"""
    out = []
    for st in stmts:
        for n in ast.walk(st):
            if isinstance(n, ast.Name) and isinstance(n.ctx, ast.Store) and n.id not in out:
                out.append(n.id)
            if isinstance(n, ast.ExceptHandler) and n.name and n.name not in out:
                out.append(n.name)
    return out


class FnTr:
    def __init__(self, fdef, spec):
        self.f, self.spec = fdef, spec
        self.name = spec['lean_name']
        self.ret = spec['result']
        self.loops = []       # texts of the loop definitions
        self.n = 0
        self.in_loop = 0
        self.notes = []

    def fresh(self, p):
        self.n += 1
        return '%s%d' % (p, self.n)

    # ------------------------------------------------------------------ expressions
    def pure(self, e, env, want=None):
        """(term, type) of a side-effect-free expression that cannot raise"""
        if isinstance(e, ast.Name):
            if e.id in env:
                return mangle(e.id), env[e.id]
            raise Unsupported(e, 'name `%s` is not a parameter / local known at this point' % e.id)
        if isinstance(e, ast.Call) and isinstance(e.func, ast.Name) and e.func.id in EXC and not e.keywords:
            for a in e.args:
                self.inert(a, env)
            return 'Exc.' + e.func.id, 'Exc'
        if isinstance(e, ast.ListComp):
            g = e.generators
            if (len(g) == 1 and not g[0].ifs and not g[0].is_async and isinstance(g[0].target, ast.Tuple)
                    and len(g[0].target.elts) == 2 and all(isinstance(x, ast.Name) for x in g[0].target.elts)
                    and isinstance(e.elt, ast.Name) and isinstance(g[0].iter, ast.Name)
                    and env.get(g[0].iter.id) == 'Pairs' and g[0].target.elts[0].id != g[0].target.elts[1].id
                    and e.elt.id == g[0].target.elts[1].id):
                return '(%s.map (fun kv => kv.2))' % mangle(g[0].iter.id), 'Vals'
            raise Unsupported(e, 'list comprehension other than `[v for i, v in <pairs>]`')
        if isinstance(e, ast.Tuple) and want == 'KV' and len(e.elts) == 2:
            a, ta = self.pure(e.elts[0], env)
            b, tb = self.pure(e.elts[1], env)
            if (ta, tb) != ('K', 'V'):
                raise Unsupported(e, 'pair of type (%s, %s), expected (K, V)' % (ta, tb))
            return '(%s, %s)' % (a, b), 'KV'
        raise Unsupported(e, 'expression `%s`' % ast.unparse(e))

    def inert(self, e, env):
        """argument of an exception constructor (not translated): must be free of calls with effects"""
        if isinstance(e, ast.Constant):
            return
        if isinstance(e, ast.Name):
            if e.id not in env:
                raise Unsupported(e, 'name `%s` in an exception argument' % e.id)
            return
        if isinstance(e, ast.BinOp) and isinstance(e.op, ast.Mod):
            self.inert(e.left, env)
            self.inert(e.right, env)
            return
        if isinstance(e, ast.Tuple):
            for x in e.elts:
                self.inert(x, env)
            return
        if isinstance(e, ast.Attribute) and e.attr == '__name__':
            return self.inert(e.value, env)
        if isinstance(e, ast.Call) and isinstance(e.func, ast.Name) and e.func.id == 'type' and len(e.args) == 1 \
                and not e.keywords:
            return self.inert(e.args[0], env)
        raise Unsupported(e, 'exception argument `%s`' % ast.unparse(e))

    def vname(self, e, env, ty):
        if isinstance(e, ast.Name) and env.get(e.id) == ty:
            return mangle(e.id)
        raise Unsupported(e, '`%s`: expected a variable of type %s' % (ast.unparse(e), ty))

    def effect(self, e, env):
        """(kind, term, type) of an operation call: kind 'exc' : Except Exc T, 'excst' : Except Exc (T × σ),
        'st' : Except Exc σ (statement), 'val' : T (reads the store, cannot raise); None when `e` is not one"""
        if isinstance(e, ast.Subscript) and isinstance(e.ctx, ast.Load):
            return 'exc', '(O.getitem s %s %s)' % (self.vname(e.value, env, 'V'), self.vname(e.slice, env, 'K')), 'V'
        if not isinstance(e, ast.Call) or e.keywords:
            return None
        f, a = e.func, e.args
        if isinstance(f, ast.Name) and f.id == 'int' and len(a) == 1:
            return 'exc', '(O.toInt %s)' % self.vname(a[0], env, 'K'), 'K'
        if isinstance(f, ast.Name) and f.id == 'ItemsView' and len(a) == 1:
            return 'val', '(O.itemsView s %s)' % self.vname(a[0], env, 'V'), 'Pairs'
        if isinstance(f, ast.Name) and f.id == 'enumerate' and len(a) == 1:
            return 'val', '(O.enumerate s %s)' % self.vname(a[0], env, 'V'), 'Pairs'
        if isinstance(f, ast.Attribute) and f.attr == '__class__' and len(a) == 0:
            return 'excst', '(O.newOfClass s %s)' % self.vname(f.value, env, 'V'), 'V'
        if isinstance(f, ast.Attribute) and f.attr == '__class__' and len(a) == 1:
            return 'excst', '(O.classOfVals s %s %s)' % (self.vname(f.value, env, 'V'), self.vname(a[0], env, 'Vals')), 'V'
        if isinstance(f, ast.Attribute) and f.attr in ('update', 'extend') and len(a) == 1 and isinstance(a[0], ast.Name):
            obj, ty = self.vname(f.value, env, 'V'), env.get(a[0].id)
            op = {('update', 'Pairs'): 'updatePairs', ('update', 'Vals'): 'updateVals', ('extend', 'Vals'): 'extend'}.get(
                (f.attr, ty))
            if op is None:
                raise Unsupported(e, '`.%s` with an argument of type %s' % (f.attr, ty))
            return 'st', '(O.%s s %s %s)' % (op, obj, mangle(a[0].id)), None
        return None

    def eval(self, e, env, kx, cont, want=None):
        """evaluate `e` (an operation call, or a pure expression), then `cont(term, type)`"""
        eff = self.effect(e, env)
        if eff is None:
            t, ty = self.pure(e, env, want)
            return cont(t, ty)
        kind, term, ty = eff
        if kind == 'val':
            return cont(term, ty)
        if kind == 'st':
            raise Unsupported(e, 'a mutating call used as a value')
        v, ex = self.fresh('t'), self.fresh('e')
        pat = v if kind == 'exc' else '(%s, s)' % v
        return 'match %s with\n| .error %s =>\n%s\n| .ok %s =>\n%s' % (
            term, ex, ind(kx(ex, env), 2), pat, ind(cont(v, ty), 2))

    def test(self, e, env):
        if isinstance(e, ast.BoolOp):
            ts = [self.test(v, env) for v in e.values]
            if any(t is True or t is False for t in ts):
                raise Unsupported(e, 'statically decided operand of and / or')
            return '(%s)' % (' || ' if isinstance(e.op, ast.Or) else ' && ').join(ts)
        if isinstance(e, ast.UnaryOp) and isinstance(e.op, ast.Not):
            t = self.test(e.operand, env)
            return None if t is None else (False if t is True else True if t is False else '(!%s)' % t)
        if isinstance(e, ast.Call) and isinstance(e.func, ast.Name) and e.func.id == 'isinstance' and len(e.args) == 2 \
                and isinstance(e.args[0], ast.Name) and not e.keywords:
            x, cls = e.args[0], e.args[1]
            cn = ast.unparse(cls)
            if [x.id, cn] in [list(p) for p in self.spec.get('static_false', [])] and env.get(x.id) != 'V':
                self.notes.append('`isinstance(%s, %s)` is false by the declared type %s of `%s`' % (
                    x.id, cn, env.get(x.id), x.id))
                return False
            v = self.vname(x, env, 'V')
            if isinstance(cls, ast.Name) and cls.id in ABC_TESTS:
                return '(O.%s s %s)' % (ABC_TESTS[cls.id], v)
            if isinstance(cls, ast.Tuple) and sorted(ast.unparse(c) for c in cls.elts) == ['bytes', 'str']:
                return '(O.isStrBytes s %s)' % v
            if isinstance(cls, ast.Name) and cls.id in ('str', 'bytes'):
                return '(O.is%s s %s)' % (cls.id.capitalize(), v)
            raise Unsupported(e, 'isinstance against `%s`' % cn)
        if isinstance(e, ast.Call) and isinstance(e.func, ast.Name) and e.func.id == 'is_iterable' and len(e.args) == 1 \
                and not e.keywords:
            return '(O.isIterable s %s)' % self.vname(e.args[0], env, 'V')
        raise Unsupported(e, 'condition `%s`' % ast.unparse(e))

    def sentinel_test(self, e, env):
        """`<x> is <sentinel>` / `is not` on a parameter of type OptV: (x, True for `is`)"""
        if isinstance(e, ast.Compare) and len(e.ops) == 1 and isinstance(e.ops[0], (ast.Is, ast.IsNot)) \
                and isinstance(e.comparators[0], ast.Name) and e.comparators[0].id == self.spec.get('sentinel') \
                and isinstance(e.left, ast.Name) and env.get(e.left.id) == 'OptV':
            return e.left.id, isinstance(e.ops[0], ast.Is)
        return None

    # ------------------------------------------------------------------ statements
    def ret_term(self, e, env, kx):
        """`return e`"""
        if self.in_loop:
            raise Unsupported(e, '`return` inside a loop')
        if self.ret == 'EnterRes':
            if not (isinstance(e, ast.Tuple) and len(e.elts) == 2):
                raise Unsupported(e, 'an enter callback returns a pair')
            snd = e.elts[1]

            def k1(t1, ty1):
                if ty1 != 'V':
                    raise Unsupported(e, 'first component of type %s' % ty1)
                if isinstance(snd, ast.Constant) and snd.value is False:
                    return '.ok ((%s, none), s)' % t1
                return self.eval(snd, env, kx, lambda t2, ty2: self.need(snd, ty2, 'Pairs')
                                 or '.ok ((%s, some %s), s)' % (t1, t2))
            return self.eval(e.elts[0], env, kx, k1)
        if self.ret == 'V' and isinstance(e, ast.Name) and env.get(e.id) == 'OptV':
            # the sentinel-or-value parameter returned where the sentinel was excluded by the test above
            raise Unsupported(e, 'returning a sentinel-typed variable outside `if <it> is %s`' % self.spec.get('sentinel'))
        return self.eval(e, env, kx, lambda t, ty: self.need(e, ty, self.ret) or '.ok (%s, s)' % t, want=self.ret)

    def need(self, node, ty, want):
        if ty != want:
            raise Unsupported(node, '`%s` has type %s, expected %s' % (ast.unparse(node), ty, want))
        return None

    def join(self, stmts_after, carried, env, k, make):
        """bind the continuation of a compound statement once (`let kN := fun carried s => rest`)"""
        if not stmts_after:
            return make(k)
        kn = self.fresh('k')
        ps = ''.join(' (%s : %s)' % (mangle(v), LEAN_TY[env[v]]) for v in carried)
        rest = k(env)
        call = lambda env2: '%s%s s' % (kn, ''.join(' ' + mangle(v) for v in carried))   # noqa: E731
        return 'let %s := fun%s (s : σ) =>\n%s\n%s' % (kn, ps, ind(rest, 2), make(call))

    def block(self, stmts, env, k, kx, reraise=None):
        """term of the statements `stmts`; `k(env)`: term of what follows, `kx(exc_term, env)`: of a raised exception"""
        if not stmts:
            return k(env)
        st, rest = stmts[0], stmts[1:]
        cont = lambda env2: self.block(rest, env2, k, kx, reraise)                          # noqa: E731
        if isinstance(st, ast.Pass) or (isinstance(st, ast.Expr) and isinstance(st.value, ast.Constant)):
            return cont(env)
        if isinstance(st, ast.Return):
            if rest:
                raise Unsupported(rest[0], 'statement after `return`')
            if st.value is None:
                raise Unsupported(st, 'bare `return`')
            return self.ret_term(st.value, env, kx)
        if isinstance(st, ast.Raise):
            if rest:
                raise Unsupported(rest[0], 'statement after `raise`')
            if st.cause is not None:
                raise Unsupported(st, '`raise ... from`')
            if st.exc is None:
                if reraise is None:
                    raise Unsupported(st, 'bare `raise` outside a handler')
                return kx(reraise, env)
            t, ty = self.pure(st.exc, env)
            self.need(st.exc, ty, 'Exc')
            return kx(t, env)
        if isinstance(st, ast.Assign):
            if len(st.targets) != 1 or not isinstance(st.targets[0], ast.Name):
                raise Unsupported(st, 'assignment target')
            x = st.targets[0].id

            def bind(t, ty):
                if x in env and env[x] != ty:
                    raise Unsupported(st, '`%s` changes type from %s to %s' % (x, env[x], ty))
                env2 = dict(env)
                env2[x] = ty
                return 'let %s := %s\n%s' % (mangle(x), t, cont(env2))
            return self.eval(st.value, env, kx, bind)
        if isinstance(st, ast.Expr):
            eff = self.effect(st.value, env)
            if eff is None or eff[0] != 'st':
                raise Unsupported(st, 'expression statement `%s`' % ast.unparse(st))
            ex = self.fresh('e')
            return 'match %s with\n| .error %s =>\n%s\n| .ok s =>\n%s' % (eff[1], ex, ind(kx(ex, env), 2), ind(cont(env), 2))
        if isinstance(st, ast.If):
            if rest and not st.orelse and terminates(st.body):      # `if c: ...raise` + rest  ==  if c: ... else: rest
                st = ast.copy_location(ast.If(test=st.test, body=st.body, orelse=rest), st)
                rest = []
                cont = lambda env2: k(env2)                                                  # noqa: E731
            sen = self.sentinel_test(st.test, env)
            if sen is not None:
                x, is_ = sen
                env_v = dict(env)
                env_v[x] = 'V'
                nb, sb = (st.body, st.orelse) if is_ else (st.orelse, st.body)
                carried = [v for v in assigned([st]) if v in env and v != x]

                def make(kj):
                    kk = lambda env2: kj(dict(env, **{v: env2[v] for v in carried}))        # noqa: E731
                    a = self.block(nb, env, kk, kx, reraise)
                    b = self.block(sb, env_v, kk, kx, reraise)
                    return 'match %s with\n| none =>\n%s\n| some %s =>\n%s' % (mangle(x), ind(a, 2), mangle(x), ind(b, 2))
                return self.join(rest, carried, env, cont, make)
            t = self.test(st.test, env)
            if t is True or t is False:
                return self.block((st.body if t else st.orelse) + rest, env, k, kx, reraise)
            carried = [v for v in assigned([st]) if v in env]

            def make(kj):
                kk = lambda env2: kj(dict(env, **{v: env2[v] for v in carried}))            # noqa: E731
                a = self.block(st.body, env, kk, kx, reraise)
                b = self.block(st.orelse, env, kk, kx, reraise)
                return 'if %s then\n%s\nelse\n%s' % (t, ind(a, 2), ind(b, 2))
            return self.join(rest, carried, env, cont, make)
        if isinstance(st, ast.Try):
            if st.orelse or st.finalbody or not st.handlers:
                raise Unsupported(st, 'try with else / finally')
            carried = [v for v in assigned([st]) if v in env]

            def make(kj):
                kk = lambda env2: kj(dict(env, **{v: env2[v] for v in carried}))            # noqa: E731

                def handler(ex, env_at):
                    e1 = self.fresh('x')
                    out = None
                    for h in reversed(st.handlers):
                        if h.type is None:
                            raise Unsupported(h, 'bare `except:`')
                        classes = h.type.elts if isinstance(h.type, ast.Tuple) else [h.type]
                        for c in classes:
                            if not (isinstance(c, ast.Name) and c.id in EXC):
                                raise Unsupported(c, 'handler class `%s`' % ast.unparse(c))
                        cond = ' || '.join('%s.isA .%s' % (e1, c.id) for c in classes)
                        env_h = dict(env_at)
                        if h.name:
                            env_h[h.name] = 'Exc'
                        body = self.block(h.body, env_h, kk, kx, reraise=e1)
                        if h.name:
                            body = 'let %s := %s\n%s' % (mangle(h.name), e1, body)
                        tail = out if out is not None else kx(e1, env_at)
                        out = 'if (%s) then\n%s\nelse\n%s' % (cond, ind(body, 2), ind(tail, 2))
                    return 'let %s := %s\n%s' % (e1, ex, out)
                return self.block(st.body, env, kk, handler, reraise)
            return self.join(rest, carried, env, cont, make)
        if isinstance(st, ast.For):
            return self.for_loop(st, env, cont, kx)
        raise Unsupported(st, 'statement `%s`' % type(st).__name__)

    def for_loop(self, st, env, cont, kx):
        if st.orelse or not isinstance(st.target, ast.Name) or not isinstance(st.iter, ast.Name) \
                or env.get(st.iter.id) != 'Path':
            raise Unsupported(st, '`for` other than `for <name> in <path>:`')
        for n in ast.walk(st):
            if isinstance(n, (ast.Break, ast.Continue)):
                raise Unsupported(n, '`break` / `continue`')
        x = st.target.id
        carried = [v for v in assigned(st.body) if v in env and v != x]
        fixed = [v for v in env if v not in carried and v != x]
        lname = '%s.loop%d' % (self.name, len(self.loops) + 1)
        self.loops.append(None)
        idx = len(self.loops) - 1
        env_b = dict(env)
        env_b[x] = 'K'
        rest_v = self.fresh('rest')
        fixed_args = ''.join(' ' + mangle(v) for v in fixed)
        rec = lambda env2: '%s O%s %s%s s' % (lname, fixed_args, rest_v, ''.join(' ' + mangle(v) for v in carried))  # noqa
        self.in_loop += 1
        body = self.block(st.body, env_b, rec, lambda ex, env2: '.error %s' % ex)
        self.in_loop -= 1
        tup = ', '.join(mangle(v) for v in carried) if carried else '()'
        tup_ty = ' × '.join(LEAN_TY[env[v]] for v in carried) if carried else 'Unit'
        if len(carried) > 1:
            tup, tup_ty = '(%s)' % tup, '(%s)' % tup_ty
        text = ('/-- `for %s in %s:` (line %d of the function) -/\n'
                'def %s (O : Ops σ V K)%s : List K →%s σ → R σ %s\n'
                '  | []%s, s => .ok (%s, s)\n'
                '  | %s :: %s%s, s =>\n%s\n' % (
                    x, st.iter.id, st.lineno - self.f.lineno + 1, lname,
                    ''.join(' (%s : %s)' % (mangle(v), LEAN_TY[env[v]]) for v in fixed),
                    ''.join(' %s →' % LEAN_TY[env[v]] for v in carried), tup_ty,
                    ''.join(', ' + mangle(v) for v in carried), tup,
                    mangle(x), rest_v, ''.join(', ' + mangle(v) for v in carried), ind(body, 4)))
        self.loops[idx] = text
        ex = self.fresh('e')
        # after an exception the values the loop had given to its variables are not available to a handler
        env_x = {v: t for v, t in env.items() if v not in carried}
        return 'match %s O%s %s%s s with\n| .error %s =>\n%s\n| .ok (%s, s) =>\n%s' % (
            lname, fixed_args, mangle(st.iter.id), ''.join(' ' + mangle(v) for v in carried), ex,
            ind(kx(ex, env_x), 2), tup, ind(cont(env), 2))

    # ------------------------------------------------------------------ whole function
    def emit(self):
        a = self.f.args
        if a.vararg or a.kwarg or a.kwonlyargs or a.posonlyargs:
            raise Unsupported(self.f, 'signature')
        names = [x.arg for x in a.args]
        nspec = len(self.spec['params'])
        # further parameters WITH defaults are tolerated as long as no translated statement mentions them (they get
        # no type: any use is refused); the tie is then about calls that leave them at their defaults
        if names[:nspec] != list(self.spec['params']) or len(names) - nspec > len(a.defaults):
            raise Unsupported(self.f, 'parameters %r, the spec declares %r' % (names, list(self.spec['params'])))
        if len(names) > nspec:
            self.notes.append('further defaulted parameters %s: not mentioned by any translated statement' % ', '.join(
                '`%s`' % n for n in names[nspec:]))
        if self.f.decorator_list:
            raise Unsupported(self.f, 'decorators')
        env = dict(self.spec['params'])
        body = list(self.f.body)
        if body and isinstance(body[0], ast.Expr) and isinstance(body[0].value, ast.Constant) \
                and isinstance(body[0].value.value, str):
            body = body[1:]

        def fell(env2):
            raise Unsupported(self.f, 'a path reaches the end of the function without return / raise')
        term = self.block(body, env, fell, lambda ex, env2: '.error %s' % ex)
        params = ''.join(' (%s : %s)' % (mangle(p), LEAN_TY[t]) for p, t in self.spec['params'].items())
        notes = ''.join('\n    (%s)' % n for n in self.notes)
        head = ('/-- `%s`: the value returned and the object store, or the exception class%s -/\n'
                'def %s (O : Ops σ V K) (s : σ)%s : R σ (%s) :=\n%s\n' % (
                    self.spec['qualname'], notes, self.name, params, LEAN_TY[self.ret], ind(term, 2)))
        return '\n'.join(list(self.loops) + [head])


# ---------------------------------------------------------------------------------------------- module
def find_function(tree, qualname):
    hits = [n for n in tree.body if isinstance(n, ast.FunctionDef) and n.name == qualname]
    if len(hits) != 1:
        raise Unsupported(None, 'expected exactly one module-level def `%s`, found %d' % (qualname, len(hits)))
    return hits[0]


def translate_source(src, specs, module_name, rel):
    tree = ast.parse(src)
    short = module_name.split('.')[-1]
    parts, infos, head = [], [], []
    for spec in specs:
        info = {'function': '%s.%s' % (module_name, spec['qualname']), 'source_file': rel, 'lines': None,
                'lean_def': 'Src.%s.%s' % (short, spec['lean_name']), 'lean_pre': None,
                'tie_theorem': spec['tie_theorem']}
        infos.append(info)
        try:
            fdef = find_function(tree, spec['qualname'])
            info['lines'] = '%d-%d' % (fdef.lineno, fdef.end_lineno)
            text = FnTr(fdef, spec).emit()
        except (Unsupported, RecursionError) as e:
            info['error'] = str(e) or type(e).__name__
            parts.append('-- NOT TRANSLATED: %s: %s\n' % (spec['qualname'], info['error'].replace('\n', ' ')))
            head.append('  %s -> NOT TRANSLATED' % spec['qualname'])
            continue
        parts.append(text)
        head.append('  %s (lines %s) -> Src.%s.%s' % (spec['qualname'], info['lines'], short, spec['lean_name']))
    out = ('/- GENERATED by harness/py2lean_c08.py (object-graph mode) from %s - do not edit.\n'
           '   Translation of the current source text (rules: notes/SRCTIE.md, section "Object-graph mode"):\n%s\n-/\n'
           'import BoltonsVerif.PyRtC08\n\nnamespace Src.%s\nopen PyRtC08\n\nsection\n'
           'variable {σ V K : Type}\n\n%s\nend\n\nend Src.%s\n' % (rel, '\n'.join(head), short, '\n'.join(parts), short))
    return out, infos


def read_module_source(module_name, repo):
    mod = importlib.import_module(module_name)
    path = os.path.abspath(inspect.getsourcefile(mod))
    if not path.startswith(os.path.abspath(repo) + os.sep):
        raise RuntimeError('%s imported from %s, not from %s' % (module_name, path, repo))
    with open(path) as fh:
        return fh.read(), os.path.relpath(path, os.path.abspath(repo))


def generate(pid, repo, specs):
    by = {}
    for sp in specs:
        by.setdefault((sp['module'], sp['gen_file']), []).append(sp)
    files, infos = {}, []
    for (module_name, gen), sps in sorted(by.items()):
        src, rel = read_module_source(module_name, repo)
        text, inf = translate_source(src, sps, module_name, rel)
        files['Src_%s.lean' % gen] = text
        infos.extend(inf)
    return files, infos


def selftest(pids, quick=False, seed=0, verbose=True):
    import py2lean_c08_selftest
    return py2lean_c08_selftest.run(pids, quick=quick, seed=seed, verbose=verbose)
