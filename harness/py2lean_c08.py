"""py2lean_c08 -- OBJECT-GRAPH MODE of the source translator (round 3e, property C08).

Translates module-level functions of boltons.iterutils that walk / rebuild a graph of duck-typed objects
(`default_visit`, `default_enter`, `default_exit`, `get_path`) into Lean definitions over

  * an abstract object-reference type `V`, key / path-segment type `K` and object store `σ` (threaded: parameter `s`),
  * the SPEC-DECLARED OPERATIONS `PyRtC08.Ops σ V K` (parameter `O`): every `isinstance` test against an ABC, `cur[seg]`,
    `int(seg)`, `value.__class__()`, `ItemsView(value)`, `enumerate(value)`, `.update(..)`, `.extend(..)`, `cls(vals)`,
  * exceptions as values (`PyRtC08.Exc`, the class only).

The language is specified in notes/SRCTIE.md (section "Object-graph mode"); everything else is REFUSED (`Unsupported`):
the function is then reported as not translated and its tie theorem cannot check.  Spec keys used: `params`
({name: type}), `result`, `static_false` (isinstance tests that the declared parameter type decides), `sentinel`.

Types: V | K | Path (List K) | Pairs (List (K × V)) | Vals (List V) | OptV (Option V; `none` = the `_UNSET` sentinel)
       | KV (K × V) | EnterRes (V × Option Pairs; `False` = none) | Exc.
"""
import ast
import importlib
import inspect
import os

RT_IMPORT = 'PyRtC08'

LEAN_TY = {'V': 'V', 'K': 'K', 'Path': 'List K', 'Pairs': 'List (K × V)', 'Vals': 'List V', 'OptV': 'Option V',
           'KV': 'K × V', 'EnterRes': 'EnterRes V K', 'Exc': 'Exc',
           # loop mode (the main loop of remap)
           'Bool': 'Bool', 'Id': 'V', 'Registry': 'List (V × V)', 'Stack': 'List (Frame V K)',
           'NIS': 'List (List K × List (K × V))', 'VisitRes': 'VisitRes V K', 'OptPairs': 'Option (List (K × V))',
           'EnterFn': 'EnterFn σ V K', 'ExitFn': 'ExitFn σ V K', 'VisitFn': 'VisitFn σ V K'}
EXC = ['KeyError', 'IndexError', 'TypeError', 'ValueError', 'AttributeError', 'RuntimeError', 'PathAccessError']
ABC_TESTS = {'Mapping': 'isMapping', 'Sequence': 'isSequence', 'Set': 'isSet'}
KEYWORDS = {'default', 'end', 'from', 'at', 'open', 'exit', 'then', 'else', 'do', 'fun', 'let', 'have', 'show', 'match',
            'with', 'in', 'if', 'return', 'where', 'local', 'section', 'namespace', 'O', 's', 'σ', 'V', 'K', 'R', 'e', 'fuel'}


class Unsupported(Exception):
    def __init__(self, node, why):
        ln = getattr(node, 'lineno', None)
        super().__init__('%s%s' % (why, ' (line %s)' % ln if ln else ''))


def mangle(n):
    return n + '_' if n in KEYWORDS else n


def ind(text, n):
    pad = ' ' * n
    return '\n'.join(pad + ln if ln else ln for ln in text.split('\n'))


def terminates(stmts):
    if not stmts:
        return False
    st = stmts[-1]
    if isinstance(st, (ast.Return, ast.Raise, ast.Continue)):
        return True
    return isinstance(st, ast.If) and terminates(st.body) and terminates(st.orelse)


def assigned(stmts):
    """names bound by assignment anywhere in the statements (loop variables included)"""
    out = []
    for st in stmts:
        for n in ast.walk(st):
            if isinstance(n, ast.Name) and isinstance(n.ctx, ast.Store) and n.id not in out:
                out.append(n.id)
            if isinstance(n, ast.ExceptHandler) and n.name and n.name not in out:
                out.append(n.name)
    return out


class FnTr:
    def __init__(self, fdef, spec):
        self.f, self.spec = fdef, spec
        self.name = spec['lean_name']
        self.ret = spec['result']
        self.loops = []       # texts of the loop definitions
        self.n = 0
        self.in_loop = 0
        self.notes = []
        self.loop_mode = False
        self.kcontinue = None

    def changed(self, stmts, env):
        """variables of `env` the statements may give a new value: assigned names and - loop mode - the declared
        list / dict locals changed through a method or a subscript store"""
        out = [v for v in assigned(stmts) if v in env]
        if self.loop_mode:
            for st in stmts:
                for n in ast.walk(st):
                    base = None
                    if isinstance(n, ast.Call) and isinstance(n.func, ast.Attribute):
                        base = n.func.value
                    elif isinstance(n, ast.Subscript) and isinstance(n.ctx, ast.Store):
                        base = n.value
                    while isinstance(base, ast.Subscript):
                        base = base.value
                    if isinstance(base, ast.Name) and env.get(base.id) in ('Registry', 'Stack', 'NIS', 'Vals') \
                            and base.id not in out:
                        out.append(base.id)
        return out

    # hooks of loop mode (class LoopTr)
    def extra_stmt(self, st, rest, env, k, kx, reraise, cont):
        return None

    def special_if(self, st, rest, env, k, kx, reraise, cont):
        return None

    def extra_effect(self, e, env):
        return None

    def extra_test(self, e, env):
        return None

    def fresh(self, p):
        self.n += 1
        return '%s%d' % (p, self.n)

    # ------------------------------------------------------------------ expressions
    def pure(self, e, env, want=None):
        """(term, type) of a side-effect-free expression that cannot raise"""
        if isinstance(e, ast.Name):
            if e.id in env:
                return mangle(e.id), env[e.id]
            raise Unsupported(e, 'name `%s` is not a parameter / local known at this point' % e.id)
        if isinstance(e, ast.Call) and isinstance(e.func, ast.Name) and e.func.id in EXC and not e.keywords:
            for a in e.args:
                self.inert(a, env)
            return 'Exc.' + e.func.id, 'Exc'
        if isinstance(e, ast.ListComp):
            g = e.generators
            if (len(g) == 1 and not g[0].ifs and not g[0].is_async and isinstance(g[0].target, ast.Tuple)
                    and len(g[0].target.elts) == 2 and all(isinstance(x, ast.Name) for x in g[0].target.elts)
                    and isinstance(e.elt, ast.Name) and isinstance(g[0].iter, ast.Name)
                    and env.get(g[0].iter.id) == 'Pairs' and g[0].target.elts[0].id != g[0].target.elts[1].id
                    and e.elt.id == g[0].target.elts[1].id):
                return '(%s.map (fun kv => kv.2))' % mangle(g[0].iter.id), 'Vals'
            raise Unsupported(e, 'list comprehension other than `[v for i, v in <pairs>]`')
        if isinstance(e, ast.Tuple) and len(e.elts) == 2 and (want == 'KV' or self.loop_mode):
            a, ta = self.pure(e.elts[0], env)
            b, tb = self.pure(e.elts[1], env)
            if (ta, tb) != ('K', 'V'):
                raise Unsupported(e, 'pair of type (%s, %s), expected (K, V)' % (ta, tb))
            return '(%s, %s)' % (a, b), 'KV'
        raise Unsupported(e, 'expression `%s`' % ast.unparse(e))

    def inert(self, e, env):
        """argument of an exception constructor (not translated): must be free of calls with effects"""
        if isinstance(e, ast.Constant):
            return
        if isinstance(e, ast.Name):
            if e.id not in env:
                raise Unsupported(e, 'name `%s` in an exception argument' % e.id)
            return
        if isinstance(e, ast.BinOp) and isinstance(e.op, ast.Mod):
            self.inert(e.left, env)
            self.inert(e.right, env)
            return
        if isinstance(e, ast.Tuple):
            for x in e.elts:
                self.inert(x, env)
            return
        if isinstance(e, ast.Attribute) and e.attr == '__name__':
            return self.inert(e.value, env)
        if isinstance(e, ast.Call) and isinstance(e.func, ast.Name) and e.func.id == 'type' and len(e.args) == 1 \
                and not e.keywords:
            return self.inert(e.args[0], env)
        raise Unsupported(e, 'exception argument `%s`' % ast.unparse(e))

    def vname(self, e, env, ty):
        if isinstance(e, ast.Name) and env.get(e.id) == ty:
            return mangle(e.id)
        raise Unsupported(e, '`%s`: expected a variable of type %s' % (ast.unparse(e), ty))

    def effect(self, e, env):
        """(kind, term, type) of an operation call: kind 'exc' : Except Exc T, 'excst' : Except Exc (T × σ),
        'st' : Except Exc σ (statement), 'val' : T (reads the store, cannot raise); None when `e` is not one"""
        r = self.extra_effect(e, env)
        if r is not None:
            return r
        if isinstance(e, ast.Subscript) and isinstance(e.ctx, ast.Load):
            return 'exc', '(O.getitem s %s %s)' % (self.vname(e.value, env, 'V'), self.vname(e.slice, env, 'K')), 'V'
        if not isinstance(e, ast.Call) or e.keywords:
            return None
        f, a = e.func, e.args
        if isinstance(f, ast.Name) and f.id == 'int' and len(a) == 1:
            return 'exc', '(O.toInt %s)' % self.vname(a[0], env, 'K'), 'K'
        if isinstance(f, ast.Name) and f.id == 'ItemsView' and len(a) == 1:
            return 'val', '(O.itemsView s %s)' % self.vname(a[0], env, 'V'), 'Pairs'
        if isinstance(f, ast.Name) and f.id == 'enumerate' and len(a) == 1:
            return 'val', '(O.enumerate s %s)' % self.vname(a[0], env, 'V'), 'Pairs'
        if isinstance(f, ast.Attribute) and f.attr == '__class__' and len(a) == 0:
            return 'excst', '(O.newOfClass s %s)' % self.vname(f.value, env, 'V'), 'V'
        if isinstance(f, ast.Attribute) and f.attr == '__class__' and len(a) == 1:
            return 'excst', '(O.classOfVals s %s %s)' % (self.vname(f.value, env, 'V'), self.vname(a[0], env, 'Vals')), 'V'
        if isinstance(f, ast.Attribute) and f.attr in ('update', 'extend') and len(a) == 1 and isinstance(a[0], ast.Name):
            obj, ty = self.vname(f.value, env, 'V'), env.get(a[0].id)
            op = {('update', 'Pairs'): 'updatePairs', ('update', 'Vals'): 'updateVals', ('extend', 'Vals'): 'extend'}.get(
                (f.attr, ty))
            if op is None:
                raise Unsupported(e, '`.%s` with an argument of type %s' % (f.attr, ty))
            return 'st', '(O.%s s %s %s)' % (op, obj, mangle(a[0].id)), None
        return None

    def eval(self, e, env, kx, cont, want=None):
        """evaluate `e` (an operation call, or a pure expression), then `cont(term, type)`"""
        eff = self.effect(e, env)
        if eff is None:
            t, ty = self.pure(e, env, want)
            return cont(t, ty)
        kind, term, ty = eff
        if kind == 'val':
            return cont(term, ty)
        if kind == 'st':
            raise Unsupported(e, 'a mutating call used as a value')
        v, ex = self.fresh('t'), self.fresh('e')
        pat = v if kind == 'exc' else '(%s, s)' % v
        return 'match %s with\n| .error %s =>\n%s\n| .ok %s =>\n%s' % (
            term, ex, ind(kx(ex, env), 2), pat, ind(cont(v, ty), 2))

    def test(self, e, env):
        r = self.extra_test(e, env)
        if r is not None:
            return r
        if isinstance(e, ast.BoolOp):
            ts = [self.test(v, env) for v in e.values]
            if any(t is True or t is False for t in ts):
                raise Unsupported(e, 'statically decided operand of and / or')
            return '(%s)' % (' || ' if isinstance(e.op, ast.Or) else ' && ').join(ts)
        if isinstance(e, ast.UnaryOp) and isinstance(e.op, ast.Not):
            t = self.test(e.operand, env)
            return None if t is None else (False if t is True else True if t is False else '(!%s)' % t)
        if isinstance(e, ast.Call) and isinstance(e.func, ast.Name) and e.func.id == 'isinstance' and len(e.args) == 2 \
                and isinstance(e.args[0], ast.Name) and not e.keywords:
            x, cls = e.args[0], e.args[1]
            cn = ast.unparse(cls)
            if [x.id, cn] in [list(p) for p in self.spec.get('static_false', [])] and env.get(x.id) != 'V':
                self.notes.append('`isinstance(%s, %s)` is false by the declared type %s of `%s`' % (
                    x.id, cn, env.get(x.id), x.id))
                return False
            v = self.vname(x, env, 'V')
            if isinstance(cls, ast.Name) and cls.id in ABC_TESTS:
                return '(O.%s s %s)' % (ABC_TESTS[cls.id], v)
            if isinstance(cls, ast.Tuple) and sorted(ast.unparse(c) for c in cls.elts) == ['bytes', 'str']:
                return '(O.isStrBytes s %s)' % v
            if isinstance(cls, ast.Name) and cls.id in ('str', 'bytes'):
                return '(O.is%s s %s)' % (cls.id.capitalize(), v)
            raise Unsupported(e, 'isinstance against `%s`' % cn)
        if isinstance(e, ast.Call) and isinstance(e.func, ast.Name) and e.func.id == 'is_iterable' and len(e.args) == 1 \
                and not e.keywords:
            return '(O.isIterable s %s)' % self.vname(e.args[0], env, 'V')
        raise Unsupported(e, 'condition `%s`' % ast.unparse(e))

    def sentinel_test(self, e, env):
        """`<x> is <sentinel>` / `is not` on a parameter of type OptV: (x, True for `is`)"""
        if isinstance(e, ast.Compare) and len(e.ops) == 1 and isinstance(e.ops[0], (ast.Is, ast.IsNot)) \
                and isinstance(e.comparators[0], ast.Name) and e.comparators[0].id == self.spec.get('sentinel') \
                and isinstance(e.left, ast.Name) and env.get(e.left.id) == 'OptV':
            return e.left.id, isinstance(e.ops[0], ast.Is)
        return None

    # ------------------------------------------------------------------ statements
    def ret_term(self, e, env, kx):
        """`return e`"""
        if self.in_loop:
            raise Unsupported(e, '`return` inside a loop')
        if self.ret == 'EnterRes':
            if not (isinstance(e, ast.Tuple) and len(e.elts) == 2):
                raise Unsupported(e, 'an enter callback returns a pair')
            snd = e.elts[1]

            def k1(t1, ty1):
                if ty1 != 'V':
                    raise Unsupported(e, 'first component of type %s' % ty1)
                if isinstance(snd, ast.Constant) and snd.value is False:
                    return '.ok ((%s, none), s)' % t1
                return self.eval(snd, env, kx, lambda t2, ty2: self.need(snd, ty2, 'Pairs')
                                 or '.ok ((%s, some %s), s)' % (t1, t2))
            return self.eval(e.elts[0], env, kx, k1)
        if self.ret == 'V' and isinstance(e, ast.Name) and env.get(e.id) == 'OptV':
            # the sentinel-or-value parameter returned where the sentinel was excluded by the test above
            raise Unsupported(e, 'returning a sentinel-typed variable outside `if <it> is %s`' % self.spec.get('sentinel'))
        return self.eval(e, env, kx, lambda t, ty: self.need(e, ty, self.ret) or '.ok (%s, s)' % t, want=self.ret)

    def need(self, node, ty, want):
        if ty != want:
            raise Unsupported(node, '`%s` has type %s, expected %s' % (ast.unparse(node), ty, want))
        return None

    def join(self, stmts_after, carried, env, k, make):
        """bind the continuation of a compound statement once (`let kN := fun carried s => rest`); a variable first
        assigned inside, on EVERY path that falls through and with one type, is a parameter too"""
        if not stmts_after:
            return make(k)
        kn = self.fresh('k')
        calls = []

        def call(env2):
            calls.append(env2)
            return '\u27ea%s\u27eb' % kn
        body = make(call)
        news = [v for v in (calls[0] if calls else {}) if v not in env
                and all(v in e and e[v] == calls[0][v] for e in calls) and calls[0][v] in LEAN_TY]
        env_after = dict(env)
        for v in news:
            env_after[v] = calls[0][v]
        ps = ''.join(' (%s : %s)' % (mangle(v), LEAN_TY[env_after[v]]) for v in carried + news)
        rest = k(env_after)
        body = body.replace('\u27ea%s\u27eb' % kn, '%s%s s' % (kn, ''.join(' ' + mangle(v) for v in carried + news)))
        return 'let %s := fun%s (s : σ) =>\n%s\n%s' % (kn, ps, ind(rest, 2), body)

    @staticmethod
    def merge(env, env2, carried):
        out = dict(env)
        for v, t in env2.items():
            if v in carried or v not in env:
                out[v] = t
        return out

    def block(self, stmts, env, k, kx, reraise=None):
        """term of the statements `stmts`; `k(env)`: term of what follows, `kx(exc_term, env)`: of a raised exception"""
        if not stmts:
            return k(env)
        st, rest = stmts[0], stmts[1:]
        cont = lambda env2: self.block(rest, env2, k, kx, reraise)                          # noqa: E731
        r = self.extra_stmt(st, rest, env, k, kx, reraise, cont)
        if r is not None:
            return r
        if isinstance(st, ast.Pass) or (isinstance(st, ast.Expr) and isinstance(st.value, ast.Constant)):
            return cont(env)
        if isinstance(st, ast.Return):
            if rest:
                raise Unsupported(rest[0], 'statement after `return`')
            if st.value is None:
                raise Unsupported(st, 'bare `return`')
            return self.ret_term(st.value, env, kx)
        if isinstance(st, ast.Raise):
            if rest:
                raise Unsupported(rest[0], 'statement after `raise`')
            if st.cause is not None:
                raise Unsupported(st, '`raise ... from`')
            if st.exc is None:
                if reraise is None:
                    raise Unsupported(st, 'bare `raise` outside a handler')
                return kx(reraise, env)
            t, ty = self.pure(st.exc, env)
            self.need(st.exc, ty, 'Exc')
            return kx(t, env)
        if isinstance(st, ast.Assign):
            if len(st.targets) != 1 or not isinstance(st.targets[0], ast.Name):
                raise Unsupported(st, 'assignment target')
            x = st.targets[0].id

            def bind(t, ty):
                if x in env and env[x] != ty and env[x] != 'VisTrue':
                    raise Unsupported(st, '`%s` changes type from %s to %s' % (x, env[x], ty))
                env2 = dict(env)
                env2[x] = ty
                return 'let %s := %s\n%s' % (mangle(x), t, cont(env2))
            return self.eval(st.value, env, kx, bind)
        if isinstance(st, ast.Expr):
            eff = self.effect(st.value, env)
            if eff is None or eff[0] != 'st':
                raise Unsupported(st, 'expression statement `%s`' % ast.unparse(st))
            ex = self.fresh('e')
            return 'match %s with\n| .error %s =>\n%s\n| .ok s =>\n%s' % (eff[1], ex, ind(kx(ex, env), 2), ind(cont(env), 2))
        if isinstance(st, ast.If):
            if rest and not st.orelse and terminates(st.body):      # `if c: ...raise` + rest  ==  if c: ... else: rest
                st = ast.copy_location(ast.If(test=st.test, body=st.body, orelse=rest), st)
                rest = []
                cont = lambda env2: k(env2)                                                  # noqa: E731
            r = self.special_if(st, rest, env, k, kx, reraise, cont)
            if r is not None:
                return r
            sen = self.sentinel_test(st.test, env)
            if sen is not None:
                x, is_ = sen
                env_v = dict(env)
                env_v[x] = 'V'
                nb, sb = (st.body, st.orelse) if is_ else (st.orelse, st.body)
                carried = [v for v in self.changed([st], env) if v != x]

                def make(kj):
                    kk = lambda env2: kj(self.merge(env, env2, carried))        # noqa: E731
                    a = self.block(nb, env, kk, kx, reraise)
                    b = self.block(sb, env_v, kk, kx, reraise)
                    return 'match %s with\n| none =>\n%s\n| some %s =>\n%s' % (mangle(x), ind(a, 2), mangle(x), ind(b, 2))
                return self.join(rest, carried, env, cont, make)
            t = self.test(st.test, env)
            if t is True or t is False:
                return self.block((st.body if t else st.orelse) + rest, env, k, kx, reraise)
            carried = self.changed([st], env)

            def make(kj):
                kk = lambda env2: kj(self.merge(env, env2, carried))            # noqa: E731
                a = self.block(st.body, env, kk, kx, reraise)
                b = self.block(st.orelse, env, kk, kx, reraise)
                return 'if %s then\n%s\nelse\n%s' % (t, ind(a, 2), ind(b, 2))
            return self.join(rest, carried, env, cont, make)
        if isinstance(st, ast.Try):
            if st.orelse or st.finalbody or not st.handlers:
                raise Unsupported(st, 'try with else / finally')
            carried = self.changed([st], env)

            def make(kj):
                kk = lambda env2: kj(self.merge(env, env2, carried))            # noqa: E731

                def handler(ex, env_at):
                    e1 = self.fresh('x')
                    out = None
                    for h in reversed(st.handlers):
                        if h.type is None:
                            raise Unsupported(h, 'bare `except:`')
                        classes = h.type.elts if isinstance(h.type, ast.Tuple) else [h.type]
                        for c in classes:
                            if not (isinstance(c, ast.Name) and c.id in EXC + ['Exception']):
                                raise Unsupported(c, 'handler class `%s`' % ast.unparse(c))
                        cond = ' || '.join('true' if c.id == 'Exception' else '%s.isA .%s' % (e1, c.id) for c in classes)
                        env_h = dict(env_at)
                        if h.name:
                            env_h[h.name] = 'Exc'
                        body = self.block(h.body, env_h, kk, kx, reraise=e1)
                        if h.name:
                            body = 'let %s := %s\n%s' % (mangle(h.name), e1, body)
                        tail = out if out is not None else kx(e1, env_at)
                        out = 'if (%s) then\n%s\nelse\n%s' % (cond, ind(body, 2), ind(tail, 2))
                    return 'let %s := %s\n%s' % (e1, ex, out)
                return self.block(st.body, env, kk, handler, reraise)
            return self.join(rest, carried, env, cont, make)
        if isinstance(st, ast.For):
            return self.for_loop(st, env, cont, kx)
        raise Unsupported(st, 'statement `%s`' % type(st).__name__)

    def for_loop(self, st, env, cont, kx):
        if st.orelse or not isinstance(st.target, ast.Name) or not isinstance(st.iter, ast.Name) \
                or env.get(st.iter.id) != 'Path':
            raise Unsupported(st, '`for` other than `for <name> in <path>:`')
        for n in ast.walk(st):
            if isinstance(n, (ast.Break, ast.Continue)):
                raise Unsupported(n, '`break` / `continue`')
        x = st.target.id
        carried = [v for v in assigned(st.body) if v in env and v != x]
        fixed = [v for v in env if v not in carried and v != x]
        lname = '%s.loop%d' % (self.name, len(self.loops) + 1)
        self.loops.append(None)
        idx = len(self.loops) - 1
        env_b = dict(env)
        env_b[x] = 'K'
        rest_v = self.fresh('rest')
        fixed_args = ''.join(' ' + mangle(v) for v in fixed)
        rec = lambda env2: '%s O%s %s%s s' % (lname, fixed_args, rest_v, ''.join(' ' + mangle(v) for v in carried))  # noqa
        self.in_loop += 1
        body = self.block(st.body, env_b, rec, lambda ex, env2: '.error %s' % ex)
        self.in_loop -= 1
        tup = ', '.join(mangle(v) for v in carried) if carried else '()'
        tup_ty = ' × '.join(LEAN_TY[env[v]] for v in carried) if carried else 'Unit'
        if len(carried) > 1:
            tup, tup_ty = '(%s)' % tup, '(%s)' % tup_ty
        text = ('/-- `for %s in %s:` (line %d of the function) -/\n'
                'def %s (O : Ops σ V K)%s : List K →%s σ → R σ %s\n'
                '  | []%s, s => .ok (%s, s)\n'
                '  | %s :: %s%s, s =>\n%s\n' % (
                    x, st.iter.id, st.lineno - self.f.lineno + 1, lname,
                    ''.join(' (%s : %s)' % (mangle(v), LEAN_TY[env[v]]) for v in fixed),
                    ''.join(' %s →' % LEAN_TY[env[v]] for v in carried), tup_ty,
                    ''.join(', ' + mangle(v) for v in carried), tup,
                    mangle(x), rest_v, ''.join(', ' + mangle(v) for v in carried), ind(body, 4)))
        self.loops[idx] = text
        ex = self.fresh('e')
        # after an exception the values the loop had given to its variables are not available to a handler
        env_x = {v: t for v, t in env.items() if v not in carried}
        return 'match %s O%s %s%s s with\n| .error %s =>\n%s\n| .ok (%s, s) =>\n%s' % (
            lname, fixed_args, mangle(st.iter.id), ''.join(' ' + mangle(v) for v in carried), ex,
            ind(kx(ex, env_x), 2), tup, ind(cont(env), 2))

    # ------------------------------------------------------------------ whole function
    def emit(self):
        a = self.f.args
        if a.vararg or a.kwarg or a.kwonlyargs or a.posonlyargs:
            raise Unsupported(self.f, 'signature')
        names = [x.arg for x in a.args]
        nspec = len(self.spec['params'])
        # further parameters WITH defaults are tolerated as long as no translated statement mentions them (they get
        # no type: any use is refused); the tie is then about calls that leave them at their defaults
        if names[:nspec] != list(self.spec['params']) or len(names) - nspec > len(a.defaults):
            raise Unsupported(self.f, 'parameters %r, the spec declares %r' % (names, list(self.spec['params'])))
        if len(names) > nspec:
            self.notes.append('further defaulted parameters %s: not mentioned by any translated statement' % ', '.join(
                '`%s`' % n for n in names[nspec:]))
        if self.f.decorator_list:
            raise Unsupported(self.f, 'decorators')
        env = dict(self.spec['params'])
        body = list(self.f.body)
        if body and isinstance(body[0], ast.Expr) and isinstance(body[0].value, ast.Constant) \
                and isinstance(body[0].value.value, str):
            body = body[1:]

        def fell(env2):
            raise Unsupported(self.f, 'a path reaches the end of the function without return / raise')
        term = self.block(body, env, fell, lambda ex, env2: '.error %s' % ex)
        params = ''.join(' (%s : %s)' % (mangle(p), LEAN_TY[t]) for p, t in self.spec['params'].items())
        notes = ''.join('\n    (%s)' % n for n in self.notes)
        head = ('/-- `%s`: the value returned and the object store, or the exception class%s -/\n'
                'def %s (O : Ops σ V K) (s : σ)%s : R σ (%s) :=\n%s\n' % (
                    self.spec['qualname'], notes, self.name, params, LEAN_TY[self.ret], ind(term, 2)))
        return '\n'.join(list(self.loops) + [head])


# ---------------------------------------------------------------------------------------------- module
def find_function(tree, qualname):
    hits = [n for n in tree.body if isinstance(n, ast.FunctionDef) and n.name == qualname]
    if len(hits) != 1:
        raise Unsupported(None, 'expected exactly one module-level def `%s`, found %d' % (qualname, len(hits)))
    return hits[0]


def translate_source(src, specs, module_name, rel):
    tree = ast.parse(src)
    short = module_name.split('.')[-1]
    parts, infos, head = [], [], []
    for spec in specs:
        info = {'function': '%s.%s' % (module_name, spec['qualname']), 'source_file': rel, 'lines': None,
                'lean_def': 'Src.%s.%s' % (short, spec['lean_name']), 'lean_pre': None,
                'tie_theorem': spec['tie_theorem']}
        infos.append(info)
        try:
            fdef = find_function(tree, spec['qualname'])
            info['lines'] = '%d-%d' % (fdef.lineno, fdef.end_lineno)
            text = (LoopTr if spec.get('kind') == 'loop' else FnTr)(fdef, spec).emit()
        except (Unsupported, RecursionError) as e:
            info['error'] = str(e) or type(e).__name__
            parts.append('-- NOT TRANSLATED: %s: %s\n' % (spec['qualname'], info['error'].replace('\n', ' ')))
            head.append('  %s -> NOT TRANSLATED' % spec['qualname'])
            continue
        parts.append(text)
        head.append('  %s (lines %s) -> Src.%s.%s' % (spec['qualname'], info['lines'], short, spec['lean_name']))
    out = ('/- GENERATED by harness/py2lean_c08.py (object-graph mode) from %s - do not edit.\n'
           '   Translation of the current source text (rules: notes/SRCTIE.md, section "Object-graph mode"):\n%s\n-/\n'
           'import BoltonsVerif.PyRtC08\n\nnamespace Src.%s\nopen PyRtC08\n\nsection\n'
           'variable {σ V K : Type}\n\n%s\nend\n\nend Src.%s\n' % (rel, '\n'.join(head), short, '\n'.join(parts), short))
    return out, infos


def read_module_source(module_name, repo):
    mod = importlib.import_module(module_name)
    path = os.path.abspath(inspect.getsourcefile(mod))
    if not path.startswith(os.path.abspath(repo) + os.sep):
        raise RuntimeError('%s imported from %s, not from %s' % (module_name, path, repo))
    with open(path) as fh:
        return fh.read(), os.path.relpath(path, os.path.abspath(repo))


def generate(pid, repo, specs):
    by = {}
    for sp in specs:
        by.setdefault((sp['module'], sp['gen_file']), []).append(sp)
    files, infos = {}, []
    for (module_name, gen), sps in sorted(by.items()):
        src, rel = read_module_source(module_name, repo)
        text, inf = translate_source(src, sps, module_name, rel)
        files['Src_%s.lean' % gen] = text
        infos.extend(inf)
    return files, infos


def selftest(pids, quick=False, seed=0, verbose=True):
    import py2lean_c08_selftest
    return py2lean_c08_selftest.run(pids, quick=quick, seed=seed, verbose=verbose)


# ---------------------------------------------------------------------------------------------- loop mode
class LoopTr(FnTr):
    """the main loop of `remap` (spec `kind: 'loop'`): the statements from the first assignment of the spec's `stack`
    variable to the end of the function.  What precedes (argument checks, `kwargs`, the trace flags) is not translated:
    the variables it leaves are parameters.  Rules: notes/SRCTIE.md 7.6."""

    def __init__(self, fdef, spec):
        super().__init__(fdef, spec)
        self.loop_mode = True
        self.L = spec['loop']

    # -- expressions / operations
    def extra_effect(self, e, env):
        L = self.L
        if isinstance(e, ast.Call) and isinstance(e.func, ast.Name) and e.func.id in L['callbacks'] and not e.keywords:
            lean, tys, res = L['callbacks'][e.func.id]
            if len(e.args) != len(tys):
                raise Unsupported(e, 'callback `%s` with %d arguments' % (e.func.id, len(e.args)))
            args = [self.vname(a, env, t) for a, t in zip(e.args, tys)]
            return 'excst', '(%s s %s)' % (lean, ' '.join(args)), res
        if isinstance(e, ast.Subscript) and isinstance(e.ctx, ast.Load) and isinstance(e.value, ast.Name) \
                and env.get(e.value.id) == 'Registry':
            return 'exc', '(regGet %s %s)' % (mangle(e.value.id), self.vname(e.slice, env, 'Id')), 'V'
        if isinstance(e, ast.Constant) and e.value is True:
            return 'val', 'VisitRes.true_', 'VisitRes'
        return None

    def extra_test(self, e, env):
        L = self.L
        if isinstance(e, ast.Name) and env.get(e.id) == 'Bool':
            return mangle(e.id)
        if isinstance(e, ast.Name) and env.get(e.id) in ('Pairs', 'NIS', 'Stack', 'Vals'):
            return '(!%s.isEmpty)' % mangle(e.id)
        if isinstance(e, ast.Compare) and len(e.ops) == 1 and isinstance(e.left, ast.Name) \
                and isinstance(e.ops[0], (ast.Is, ast.IsNot)) and isinstance(e.comparators[0], ast.Constant) \
                and e.comparators[0].value is None and env.get(e.left.id) == 'K':
            t = '(decide (%s = %s))' % (mangle(e.left.id), L['none_key'])      # `key is None`
            return t if isinstance(e.ops[0], ast.Is) else '(!%s)' % t
        if isinstance(e, ast.Compare) and len(e.ops) == 1 and isinstance(e.left, ast.Name) \
                and isinstance(e.comparators[0], ast.Name):
            a, b, op = e.left.id, e.comparators[0].id, e.ops[0]
            if isinstance(op, (ast.Is, ast.IsNot)) and [a, b] in [list(x[:2]) for x in L['identity_flags']]:
                flag = [x[2] for x in L['identity_flags'] if list(x[:2]) == [a, b]][0]
                return flag if isinstance(op, ast.Is) else '(!%s)' % flag
            if isinstance(op, (ast.Is, ast.IsNot)) and env.get(a) == 'V' and env.get(b) == 'V':
                t = '(decide (%s = %s))' % (mangle(a), mangle(b))
                return t if isinstance(op, ast.Is) else '(!%s)' % t
            if isinstance(op, (ast.In, ast.NotIn)) and env.get(a) == 'Id' and env.get(b) == 'Registry':
                t = '(regLookup %s %s).isSome' % (mangle(b), mangle(a))
                return '(%s)' % t if isinstance(op, ast.In) else '(!%s)' % t
        return None

    # -- statements
    def is_print_if(self, st):
        return (isinstance(st, ast.If) and isinstance(st.test, ast.Name) and st.test.id in self.L['trace_flags']
                and not st.orelse and all(isinstance(b, ast.Expr) and isinstance(b.value, ast.Call)
                                          and isinstance(b.value.func, ast.Name) and b.value.func.id == 'print'
                                          for b in st.body))

    def extra_stmt(self, st, rest, env, k, kx, reraise, cont):
        L = self.L
        if self.is_print_if(st):                 # output under a trace flag: not modelled, no effect on the state
            return cont(env)
        if isinstance(st, ast.Continue):
            if rest or self.kcontinue is None:
                raise Unsupported(st, '`continue` here')
            return self.kcontinue(env)
        if isinstance(st, ast.While):
            return self.while_loop(st, rest, env, cont, kx)
        if isinstance(st, ast.Return) and isinstance(st.value, ast.Name) and env.get(st.value.id) == 'OptV' and not rest \
                and not self.in_loop:
            x = mangle(st.value.id)
            return 'match %s with\n| none =>\n%s\n| some %s =>\n  .ok (%s, s)' % (
                x, ind(kx('Exc.UnboundLocalError', env), 2), x, x)
        if isinstance(st, ast.AugAssign) and isinstance(st.op, ast.Add) and isinstance(st.target, ast.Name) \
                and env.get(st.target.id) == 'Path' and isinstance(st.value, ast.Tuple) and len(st.value.elts) == 1:
            x = mangle(st.target.id)
            return 'let %s := %s ++ [%s]\n%s' % (x, x, self.vname(st.value.elts[0], env, 'K'), cont(env))
        if isinstance(st, ast.Try) and len(st.body) == 1 and isinstance(st.body[0], ast.Assign) \
                and isinstance(st.body[0].targets[0], ast.Tuple) and isinstance(st.body[0].value, ast.Name) \
                and env.get(st.body[0].value.id) == 'EnterRes' and len(st.handlers) == 1 and not st.orelse \
                and not st.finalbody and isinstance(st.handlers[0].type, ast.Name) and st.handlers[0].type.id == 'TypeError' \
                and terminates(st.handlers[0].body):
            # unpacking a value whose declared type is a pair cannot raise: the handler is unreachable
            tg = st.body[0].targets[0].elts
            if len(tg) != 2 or not all(isinstance(x, ast.Name) for x in tg):
                raise Unsupported(st, 'unpacking of an enter result')
            r = mangle(st.body[0].value.id)
            env2 = dict(env, **{tg[0].id: 'V', tg[1].id: 'OptPairs'})
            return 'let %s := %s.1\nlet %s := %s.2\n%s' % (mangle(tg[0].id), r, mangle(tg[1].id), r, cont(env2))
        if isinstance(st, ast.Assign) and len(st.targets) == 1:
            tg, v = st.targets[0], st.value
            # initialisation by literals, typed by the spec's `locals`
            if isinstance(tg, ast.Tuple) and isinstance(v, ast.Tuple) and len(tg.elts) == len(v.elts) \
                    and all(isinstance(x, ast.Name) for x in tg.elts):
                out, env2 = [], dict(env)
                for x, val in zip(tg.elts, v.elts):
                    t, ty = self.literal(x.id, val, env)
                    out.append('let %s : %s := %s' % (mangle(x.id), LEAN_TY[ty], t))
                    env2[x.id] = ty
                return '\n'.join(out) + '\n' + cont(env2)
            if isinstance(tg, ast.Name) and tg.id in L['locals'] and tg.id not in env \
                    and isinstance(v, (ast.List, ast.Tuple, ast.Dict)):
                t, ty = self.literal(tg.id, v, env)
                return 'let %s : %s := %s\n%s' % (mangle(tg.id), LEAN_TY[ty], t, cont(dict(env, **{tg.id: ty})))
            # id_value = id(x)
            if isinstance(tg, ast.Name) and isinstance(v, ast.Call) and isinstance(v.func, ast.Name) and v.func.id == 'id' \
                    and len(v.args) == 1 and isinstance(v.args[0], ast.Name) and not v.keywords:
                y = v.args[0].id
                if env.get(y) == 'V':
                    return 'let %s := %s\n%s' % (mangle(tg.id), mangle(y), cont(dict(env, **{tg.id: 'Id'})))
                if env.get(y) == 'Triple':        # the id of the exit triple: never used (any use is refused)
                    return cont(dict(env, **{tg.id: 'Dead'}))
                raise Unsupported(st, '`id` of `%s`' % y)
            # key, new_parent, old_parent = value   (the exit entry)
            if isinstance(tg, ast.Tuple) and isinstance(v, ast.Name) and env.get(v.id) == 'Triple' and len(tg.elts) == 3 \
                    and all(isinstance(x, ast.Name) for x in tg.elts):
                env2 = {a: t for a, t in env.items() if a != v.id}
                lets = []
                for x, (f, ty) in zip(tg.elts, self.triple):
                    lets.append('let %s := %s' % (mangle(x.id), f))
                    env2[x.id] = ty
                return '\n'.join(lets) + '\n' + cont(env2)
            # path, new_items = new_items_stack.pop()
            if isinstance(tg, ast.Tuple) and len(tg.elts) == 2 and all(isinstance(x, ast.Name) for x in tg.elts) \
                    and isinstance(v, ast.Call) and isinstance(v.func, ast.Attribute) and v.func.attr == 'pop' \
                    and not v.args and isinstance(v.func.value, ast.Name) and env.get(v.func.value.id) == 'NIS':
                n = mangle(v.func.value.id)
                a, b = tg.elts[0].id, tg.elts[1].id
                env2 = dict(env, **{a: 'Path', b: 'Pairs'})
                return 'match %s with\n| [] =>\n%s\n| (%s, %s) :: %s =>\n%s' % (
                    n, ind(kx('Exc.IndexError', env), 2), mangle(a), mangle(b), n, ind(cont(env2), 2))
            # registry[id_value] = x
            if isinstance(tg, ast.Subscript) and isinstance(tg.value, ast.Name) and env.get(tg.value.id) == 'Registry':
                r = mangle(tg.value.id)
                return 'let %s := (%s, %s) :: %s\n%s' % (r, self.vname(tg.slice, env, 'Id'), self.vname(v, env, 'V'), r,
                                                        cont(env))
        if isinstance(st, ast.Expr) and isinstance(st.value, ast.Call) and isinstance(st.value.func, ast.Attribute) \
                and len(st.value.args) == 1 and not st.value.keywords:
            f, a = st.value.func, st.value.args[0]
            if isinstance(f.value, ast.Name):
                lst, ty = mangle(f.value.id), env.get(f.value.id)
                if f.attr == 'append' and ty == 'Vals':
                    return 'let %s := %s ++ [%s]\n%s' % (lst, lst, self.vname(a, env, 'V'), cont(env))
                if f.attr == 'append' and ty == 'NIS' and isinstance(a, ast.Tuple) and len(a.elts) == 2 \
                        and isinstance(a.elts[1], ast.List) and not a.elts[1].elts:
                    return 'let %s := (%s, []) :: %s\n%s' % (lst, self.vname(a.elts[0], env, 'Path'), lst, cont(env))
                if f.attr == 'append' and ty == 'Stack' and isinstance(a, ast.Tuple) and len(a.elts) == 2 \
                        and isinstance(a.elts[0], ast.Name) and a.elts[0].id == L['exit_marker'] \
                        and isinstance(a.elts[1], ast.Tuple) and len(a.elts[1].elts) == 3:
                    x = a.elts[1].elts
                    return 'let %s := Frame.exit %s %s %s :: %s\n%s' % (
                        lst, self.vname(x[0], env, 'K'), self.vname(x[1], env, 'V'), self.vname(x[2], env, 'V'), lst, cont(env))
                if f.attr == 'extend' and ty == 'Stack' and ast.unparse(a).startswith('reversed(list(') \
                        and isinstance(a, ast.Call) and isinstance(a.args[0], ast.Call) \
                        and isinstance(a.args[0].args[0], ast.Name) and len(a.args) == 1 and len(a.args[0].args) == 1:
                    return 'let %s := (%s.map fun kv => Frame.item kv.1 kv.2) ++ %s\n%s' % (
                        lst, self.vname(a.args[0].args[0], env, 'Pairs'), lst, cont(env))
            # new_items_stack[-1][1].append(item)
            if f.attr == 'append' and ast.unparse(f.value).endswith('[-1][1]') and isinstance(f.value, ast.Subscript) \
                    and isinstance(f.value.value, ast.Subscript) and isinstance(f.value.value.value, ast.Name) \
                    and env.get(f.value.value.value.id) == 'NIS':
                n = mangle(f.value.value.value.id)
                pp, acc, nr = self.fresh('pp'), self.fresh('acc'), self.fresh('nr')
                return 'match %s with\n| [] =>\n%s\n| (%s, %s) :: %s =>\n  let %s := (%s, %s ++ [%s]) :: %s\n%s' % (
                    n, ind(kx('Exc.IndexError', env), 2), pp, acc, nr, n, pp, acc, self.vname(a, env, 'KV'), nr,
                    ind(cont(env), 2))
        return None

    def literal(self, name, val, env):
        ty = self.L['locals'].get(name)
        if ty is None:
            raise Unsupported(val, 'no declared type for `%s`' % name)
        if isinstance(val, (ast.Tuple, ast.List)) and not val.elts and ty in ('Path', 'NIS', 'Vals'):
            return '[]', ty
        if isinstance(val, ast.Dict) and not val.keys and ty == 'Registry':
            return '[]', ty
        if ty == 'Stack' and isinstance(val, ast.List) and len(val.elts) == 1 and isinstance(val.elts[0], ast.Tuple) \
                and len(val.elts[0].elts) == 2 and isinstance(val.elts[0].elts[0], ast.Constant) \
                and val.elts[0].elts[0].value is None:
            return '[Frame.item %s %s]' % (self.L['none_key'], self.vname(val.elts[0].elts[1], env, 'V')), ty
        raise Unsupported(val, 'initial value `%s` of `%s`' % (ast.unparse(val), name))

    def special_if(self, st, rest, env, k, kx, reraise, cont):
        t = st.test
        seq = lambda b: b if terminates(b) else b + rest                                   # noqa: E731
        # key is _REMAP_EXIT: decided by the kind of the popped entry
        if isinstance(t, ast.Compare) and len(t.ops) == 1 and isinstance(t.ops[0], ast.Is) and isinstance(t.left, ast.Name) \
                and isinstance(t.comparators[0], ast.Name) and t.comparators[0].id == self.L['exit_marker']:
            ty = env.get(t.left.id)
            if ty not in ('K', 'ExitKey'):
                raise Unsupported(st, '`%s` compared with the exit marker' % t.left.id)
            return self.block(seq(st.body if ty == 'ExitKey' else st.orelse), env, k, kx, reraise)
        if isinstance(t, ast.Compare) and len(t.ops) == 1 and isinstance(t.ops[0], (ast.Is, ast.IsNot)) \
                and isinstance(t.left, ast.Name) and isinstance(t.comparators[0], ast.Constant) \
                and t.comparators[0].value in (True, False) and isinstance(t.comparators[0].value, bool):
            x, ty, c, is_ = t.left.id, env.get(t.left.id), t.comparators[0].value, isinstance(t.ops[0], ast.Is)
            yes, no = (st.body, st.orelse) if is_ else (st.orelse, st.body)
            if ty == 'OptPairs' and c is False:          # items is False  /  is not False
                mx = mangle(x)
                a = self.block(seq(yes), env, k, kx, reraise)
                b = self.block(seq(no), dict(env, **{x: 'Pairs'}), k, kx, reraise)
                return 'match %s with\n| none =>\n%s\n| some %s =>\n%s' % (mx, ind(a, 2), mx, ind(b, 2))
            if ty == 'VisitRes':                          # case analysis of a visit result, refined in the branches
                mx = mangle(x)
                vk, vv = self.fresh('vk'), self.fresh('vv')
                br = {}
                for con, ty2 in (('false_', 'VisFalse'), ('true_', 'VisTrue'), ('pair', 'KV')):
                    hit = (con == 'false_') if c is False else (con == 'true_')
                    br[con] = self.block(seq(yes if hit else no), dict(env, **{x: ty2}), k, kx, reraise)
                return ('match %s with\n| .false_ =>\n%s\n| .true_ =>\n%s\n| .pair %s %s =>\n  let %s := (%s, %s)\n%s' % (
                    mx, ind(br['false_'], 2), ind(br['true_'], 2), vk, vv, mx, vk, vv, ind(br['pair'], 2)))
            if ty in ('VisTrue', 'VisFalse', 'KV'):       # already decided
                val = (ty == 'VisTrue') if c is True else (ty == 'VisFalse')
                return self.block(seq((st.body if val else st.orelse) if is_ else (st.orelse if val else st.body)),
                                  env, k, kx, reraise)
        return None

    def while_loop(self, st, rest, env, cont, kx):
        L = self.L
        if st.orelse or not (isinstance(st.test, ast.Name) and env.get(st.test.id) == 'Stack') or self.in_loop:
            raise Unsupported(st, '`while` other than `while <stack>:`')
        for n in ast.walk(st):
            if isinstance(n, ast.Break):
                raise Unsupported(n, '`break`')
        stack = st.test.id
        first = st.body[0] if st.body else None
        if not (isinstance(first, ast.Assign) and isinstance(first.targets[0], ast.Tuple) and len(first.targets[0].elts) == 2
                and all(isinstance(x, ast.Name) for x in first.targets[0].elts) and ast.unparse(first.value) == stack + '.pop()'):
            raise Unsupported(st, 'the loop body must start with `key, value = %s.pop()`' % stack)
        kname, vname = [x.id for x in first.targets[0].elts]
        body = st.body[1:]
        res = L['result_var']
        # loop state: variables assigned in the body, and the declared mutable locals (changed through methods)
        state = sorted(self.changed(st.body, env))
        if res in env or res != vname:
            raise Unsupported(st, 'the loop result `%s`' % res)
        fixed = [v for v in env if v not in state]
        lname = '%s.loop%d' % (self.name, len(self.loops) + 1)
        self.loops.append(None)
        idx = len(self.loops) - 1
        fixed_args = ''.join(' ' + mangle(v) for v in fixed)
        sargs = lambda: ''.join(' ' + mangle(v) for v in state)                              # noqa: E731
        self.kcontinue = lambda env2: '%s%s fuel%s (some %s) s' % (lname, fixed_args, sargs(), mangle(res))
        self.in_loop += 1
        env_i = dict(env, **{kname: 'K', vname: 'V'})
        b_item = self.block(body, env_i, self.kcontinue, lambda ex, env2: '.error %s' % ex)
        self.triple = [('fk', 'K'), ('fnp', 'V'), ('fold', 'V')]
        env_e = dict(env, **{kname: 'ExitKey', vname: 'Triple'})
        b_exit = self.block(body, env_e, self.kcontinue, lambda ex, env2: '.error %s' % ex)
        self.in_loop -= 1
        self.kcontinue = None
        tup = '(%s)' % ', '.join([mangle(v) for v in state] + [mangle(res)])
        tup_ty = '(%s)' % ' × '.join([LEAN_TY[env[v]] for v in state] + ['Option V'])
        pats = ''.join(', ' + mangle(v) for v in state)
        text = ('/-- `while %s:` (line %d of the function): one `fuel` per iteration; the entry popped decides between the\n'
                '    two readings of the body (`%s is %s`) -/\n'
                'def %s [DecidableEq V] [DecidableEq K]%s : Nat →%s Option V → σ → R σ %s\n'
                '  | 0%s, _, _ => .error Exc.OutOfFuel\n'
                '  | fuel + 1%s, %s, s =>\n'
                '    match %s with\n'
                '    | [] => .ok (%s, s)\n'
                '    | Frame.item %s %s :: %s =>\n%s\n'
                '    | Frame.exit fk fnp fold :: %s =>\n%s\n' % (
                    stack, st.lineno - self.f.lineno + 1, kname, L['exit_marker'], lname,
                    ''.join(' (%s : %s)' % (mangle(v), LEAN_TY[env[v]]) for v in fixed),
                    ''.join(' %s →' % LEAN_TY[env[v]] for v in state), tup_ty,
                    ''.join(', _' for v in state), pats, mangle(res), mangle(stack), tup,
                    mangle(kname), mangle(vname), mangle(stack), ind(b_item, 6), mangle(stack), ind(b_exit, 6)))
        self.loops[idx] = text
        ex = self.fresh('e')
        env_after = dict(env, **{res: 'OptV'})
        return 'match %s%s fuel%s none s with\n| .error %s =>\n%s\n| .ok (%s, s) =>\n%s' % (
            lname, fixed_args, sargs(), ex, ind(kx(ex, {v: t for v, t in env.items() if v not in state}), 2), tup,
            ind(cont(env_after), 2))

    def emit(self):
        L = self.L
        a = self.f.args
        names = [x.arg for x in a.args]
        if names[:len(L['signature'])] != L['signature'] or a.vararg or a.kwonlyargs or a.posonlyargs:
            raise Unsupported(self.f, 'parameters %r, the spec declares %r' % (names, L['signature']))
        start = [i for i, st in enumerate(self.f.body) if L['stack'] in assigned([st])]
        if not start:
            raise Unsupported(self.f, 'no assignment of `%s`' % L['stack'])
        body = self.f.body[start[0]:]
        for st in self.f.body[:start[0]]:                      # the untranslated preamble must not touch the loop's variables
            for v in assigned([st]):
                if v in L['locals'] or v == L['result_var']:
                    raise Unsupported(st, 'the preamble assigns `%s`' % v)
        env = dict(self.spec['params'])

        def fell(env2):
            raise Unsupported(self.f, 'a path reaches the end of the function without return / raise')
        term = self.block(body, env, fell, lambda ex, env2: '.error %s' % ex)
        params = ''.join(' (%s : %s)' % (mangle(p), LEAN_TY[t]) for p, t in self.spec['params'].items())
        head = ('/-- the main loop of `%s` (from the initialisation of `%s` to `return`): callbacks, flags and the `None` key are\n'
                '    parameters; the value returned and the object store, or the exception class -/\n'
                'def %s [DecidableEq V] [DecidableEq K] (fuel : Nat) (s : σ)%s : R σ (%s) :=\n%s\n' % (
                    self.spec['qualname'], L['stack'], self.name, params, LEAN_TY[self.ret], ind(term, 2)))
        return '\n'.join(list(self.loops) + [head])
