"""py2lean - source translator of the SrcTie: restricted Python  ->  Lean 4 definitions.

A small compiler from a restricted, first-order subset of Python (integers, booleans, strings,
lists, tuples; assignments, `if`, `for` over a list / `range`, `break`, `continue`, `return`,
`yield`) to Lean 4 source text.  The embedding is SHALLOW (a Python function becomes a Lean
function) and in continuation-passing style: every statement list becomes a Lean term of the
result type with one free variable `s : <f>.St`, the record of all Python variables.

The translation rules are specified in notes/SRCTIE.md; this file is in the trusted base of the
source tie and is validated against CPython by harness/py2lean_selftest.py.

Public API:
    translate_module(module_name, specs) -> (lean_source_text, [info dict per function])
    generate(pid) -> ({generated file name: text}, [info...])        (specs from srctie_specs.py)
Anything outside the subset raises `Unsupported`.
"""
from __future__ import annotations

import ast
import importlib
import inspect
import os

LEAN_RESERVED = {
    'at', 'from', 'fun', 'let', 'in', 'end', 'do', 'if', 'then', 'else', 'match', 'with', 'have',
    'show', 'by', 'where', 'open', 'def', 'theorem', 'example', 'instance', 'structure', 'class',
    'namespace', 'section', 'variable', 'universe', 'import', 'return', 'for', 'unless', 'try',
    'catch', 'finally', 'mut', 'nomatch', 'nofun', 'Type', 'Sort', 'Prop', 'forall', 'exists',
    'using', 'calc', 'deriving', 'extends', 'private', 'protected', 'partial', 'mutual', 'macro',
    'syntax', 'notation', 'infix', 'infixl', 'infixr', 'prefix', 'postfix', 'set_option', 'attribute',
    's', 'k', 'kbreak', 'x', 'xs',      # names the generated code itself binds
}


class Unsupported(Exception):
    """the source uses something outside the translated subset"""

    def __init__(self, node, why=''):
        self.node, self.why = node, why
        where = ''
        if isinstance(node, ast.AST) and hasattr(node, 'lineno'):
            where = ' at line %d' % node.lineno
        what = type(node).__name__ if isinstance(node, ast.AST) else str(node)
        super().__init__('unsupported %s%s%s' % (what, where, (': ' + why) if why else ''))


# ---------------------------------------------------------------------------------------- types
# A type is a tuple: ('Int',) ('Bool',) ('Str',) ('Var', 'α') ('List', T|None) ('Option', T|None)
# ('Prod', (T1, T2, ...)); None inside = not yet known.

INT, BOOL, STR = ('Int',), ('Bool',), ('Str',)


def parse_type(text: str):
    toks = []
    i = 0
    while i < len(text):
        c = text[i]
        if c.isspace():
            i += 1
        elif c in '()×':
            toks.append(c)
            i += 1
        elif c == '*':
            toks.append('×')
            i += 1
        else:
            j = i
            while j < len(text) and not text[j].isspace() and text[j] not in '()×*':
                j += 1
            toks.append(text[i:j])
            i = j
    pos = [0]

    def peek():
        return toks[pos[0]] if pos[0] < len(toks) else None

    def eat():
        pos[0] += 1
        return toks[pos[0] - 1]

    def atom():
        t = eat()
        if t == '(':
            r = prod()
            if eat() != ')':
                raise ValueError('bad type ' + text)
            return r
        if t == 'Int':
            return INT
        if t == 'Bool':
            return BOOL
        if t == 'Str':
            return STR
        if t in ('List', 'Option'):
            return (t, atom())
        if t and t[0] in 'αβγδ':
            return ('Var', t)
        raise ValueError('bad type ' + text)

    def prod():
        parts = [atom()]
        while peek() == '×':
            eat()
            parts.append(atom())
        return parts[0] if len(parts) == 1 else ('Prod', tuple(parts))

    r = prod()
    if pos[0] != len(toks):
        raise ValueError('bad type ' + text)
    return r


def show_type(t, top=True) -> str:
    """Lean text of a type; `top=False`: parenthesised when it is an application / product"""
    if t is None:
        raise Unsupported('type', 'a variable type could not be inferred (give it in the spec `locals`)')
    k = t[0]
    if k == 'Int':
        r = 'Int'
    elif k == 'Bool':
        r = 'Bool'
    elif k == 'Str':
        r = 'List Char'
    elif k == 'Var':
        r = t[1]
    elif k in ('List', 'Option'):
        r = '%s %s' % (k, show_type(t[1], False))
    elif k == 'Prod':
        r = ' × '.join(show_type(x, False) for x in t[1])
    else:
        raise ValueError(t)
    if top or ' ' not in r:
        return r
    return '(' + r + ')'


def unify(a, b, node=None):
    """least upper bound of two (partially known) types; Unsupported when they disagree"""
    if a is None:
        return b
    if b is None:
        return a
    if a == b:
        return a
    if a[0] == b[0] and a[0] in ('List', 'Option'):
        return (a[0], unify(a[1], b[1], node))
    if a[0] == 'Prod' and b[0] == 'Prod' and len(a[1]) == len(b[1]):
        return ('Prod', tuple(unify(x, y, node) for x, y in zip(a[1], b[1])))
    # T and Option T  (a value that may be None)
    if a[0] == 'Option' and b[0] != 'Option':
        return ('Option', unify(a[1], b, node))
    if b[0] == 'Option' and a[0] != 'Option':
        return ('Option', unify(a, b[1], node))
    raise Unsupported(node if node is not None else 'type', 'conflicting types %s / %s' % (a, b))


def known(t) -> bool:
    if t is None:
        return False
    if t[0] in ('List', 'Option'):
        return known(t[1])
    if t[0] == 'Prod':
        return all(known(x) for x in t[1])
    return True


def default_of(t) -> str:
    k = t[0]
    if k == 'Int':
        return '(0 : Int)'
    if k == 'Bool':
        return 'false'
    if k in ('Str', 'List'):
        return '([] : %s)' % show_type(t)
    if k == 'Option':
        return '(none : %s)' % show_type(t)
    if k == 'Prod':
        return '(' + ', '.join(default_of(x) for x in t[1]) + ')'
    raise Unsupported('type', 'a local variable of abstract type %s has no initial value' % (t,))


def has_deceq(t) -> bool:
    k = t[0]
    if k in ('Int', 'Bool', 'Str'):
        return True
    if k in ('List', 'Option'):
        return t[1] is not None and has_deceq(t[1])
    if k == 'Prod':
        return all(x is not None and has_deceq(x) for x in t[1])
    return False


def mangle(name: str) -> str:
    return name + '_' if name in LEAN_RESERVED else name


def char_lit(c: str) -> str:
    o = ord(c)
    if c == "'":
        return "'\\''"
    if c == '\\':
        return "'\\\\'"
    if 32 <= o < 127:
        return "'%s'" % c
    return "(Char.ofNat %d)" % o


def str_lit(v: str) -> str:
    if v == '':
        return '([] : List Char)'
    return '([' + ', '.join(char_lit(c) for c in v) + '] : List Char)'


def indent(text: str, n: int = 2) -> str:
    pad = ' ' * n
    return '\n'.join(pad + ln if ln else ln for ln in text.split('\n'))


def paren(text: str) -> str:
    if '\n' in text:
        return '(\n' + indent(text) + ')'
    return '(' + text + ')'


# ---------------------------------------------------------------------------------------- function translator

class FnTranslator:
    def __init__(self, fdef: ast.FunctionDef, spec: dict, module_defs: dict):
        import py2lean_prepass                   # desugaring into the subset; the identity when nothing applies
        self.prepass = {}
        fdef = py2lean_prepass.run(fdef, getattr(fdef, '_module_tree', None), spec, self.prepass)
        self.f = fdef
        self.spec = spec
        self.module_defs = module_defs          # name -> ast.FunctionDef of module-level functions
        self.name = spec['lean_name']
        self.kind = spec['kind']                # 'function' | 'generator'
        self.tparams = list(spec.get('tparams', []))
        self.self_attrs = dict(spec.get('self_attrs', {}))      # attr -> type text
        self.self_len = spec.get('self_len', False)
        self.guard_names = list(spec.get('guards', []))
        self.result_t = parse_type(spec['result'])
        self.R = ('List', self.result_t) if self.kind == 'generator' else self.result_t
        self.counter = 0
        self.loops = []                         # loop defs by number (outer loops are numbered first)
        self.loop_texts = []                    # loop defs in emission order
        self.pre_conjuncts = []
        self.guard_calls = []                   # the ast.Call nodes turned into precondition conjuncts
        self.vars = {}                          # python name -> type (params + locals), insertion = field order
        self.params = []                        # lean parameter list: (lean name, type), call order
        self.self_name = None
        self._collect_params()
        self._strip_guards()
        self._infer_types()

    # -- names ---------------------------------------------------------------------------
    @property
    def st(self):
        return self.name + '.St' + (''.join(' ' + p for p in self.tparams))

    def tbinder(self, implicit=True):
        if not self.tparams:
            return ''
        return ('{%s : Type} ' if implicit else '(%s : Type) ') % ' '.join(self.tparams)

    def fresh(self, base):
        self.counter += 1
        return '%s%d' % (base, self.counter)

    # -- parameters ----------------------------------------------------------------------
    def _collect_params(self):
        a = self.f.args
        if a.vararg or a.kwarg or a.kwonlyargs or a.posonlyargs:
            raise Unsupported(self.f, 'only plain positional parameters')
        names = [x.arg for x in a.args]
        ptypes = self.spec['params']
        if self.spec.get('method'):
            self.self_name = names[0]
            names = names[1:]
        if list(ptypes) != names:
            raise Unsupported(self.f, 'parameter list %s differs from the spec %s' % (names, list(ptypes)))
        for n in names:
            t = parse_type(ptypes[n])
            self.vars[n] = t
            self.params.append((mangle(n), t))
        if self.self_len:
            self.vars['self.__len__'] = INT
            self.params.append(('self_len', INT))
        for attr, tt in self.self_attrs.items():
            t = parse_type(tt)
            self.vars['self.' + attr] = t
            self.params.append(('self_' + attr, t))
        # default values are not translated: every Lean parameter is explicit

    def field(self, pyname: str) -> str:
        """record field of a Python variable: parameters keep their name (they are API), `self.<attr>`
        reads are `self_<attr>`, LOCALS are numbered `loc<k>` in the order of their first binding in the
        source text, so that renaming a local variable leaves the generated definitions unchanged"""
        if pyname == 'self.__len__':
            return 'self_len'
        if pyname.startswith('self.'):
            return 'self_' + pyname[5:]
        if pyname in self.spec['params']:
            return mangle(pyname)
        locs = [n for n in self.vars if n not in self.spec['params'] and not n.startswith('self.')]
        return 'loc%d' % (locs.index(pyname) + 1)

    # -- guard calls -> precondition --------------------------------------------------------
    def _strip_guards(self):
        body = list(self.f.body)
        if body and isinstance(body[0], ast.Expr) and isinstance(body[0].value, ast.Constant) \
                and isinstance(body[0].value.value, str):
            body = body[1:]                      # docstring
        pnames = {n for n in self.spec['params']}
        while body:
            st = body[0]
            if (isinstance(st, ast.Assign) and len(st.targets) == 1 and isinstance(st.targets[0], ast.Name)
                    and isinstance(st.value, ast.Call) and isinstance(st.value.func, ast.Name)
                    and st.value.func.id in self.guard_names):
                tgt = st.targets[0].id
                call = st.value
                if tgt not in pnames or not call.args or not isinstance(call.args[0], ast.Name) \
                        or call.args[0].id != tgt:
                    raise Unsupported(st, 'guard call must have the form  p = guard(p, ...)  on a parameter')
                self.pre_conjuncts.append(self._guard_condition(call))
                self.guard_calls.append(call)
                body = body[1:]
            else:
                break
        self.body = body
        for n in ast.walk(ast.Module(body=body, type_ignores=[])):
            if isinstance(n, ast.Call) and isinstance(n.func, ast.Name) and n.func.id in self.guard_names:
                raise Unsupported(n, 'guard call after the first ordinary statement')

    def _guard_condition(self, call: ast.Call) -> str:
        """`p = g(p, consts...)` where g is  [value = int(value)]; (if c: raise ...)*; return value.
        Returns the Lean Bool saying that no `raise` is reached."""
        g = self.module_defs.get(call.func.id)
        if g is None:
            raise Unsupported(call, 'guard function %s not found at module level' % call.func.id)
        ga = g.args
        if ga.vararg or ga.kwarg or ga.kwonlyargs or ga.posonlyargs:
            raise Unsupported(g, 'guard signature')
        gnames = [x.arg for x in ga.args]
        defaults = dict(zip(gnames[len(gnames) - len(ga.defaults):], ga.defaults))
        bind = {}
        for n, v in zip(gnames, call.args):
            bind[n] = v
        for kw in call.keywords:
            if kw.arg is None or kw.arg not in gnames or kw.arg in bind:
                raise Unsupported(call, 'guard keyword')
            bind[kw.arg] = kw.value
        for n in gnames:
            if n not in bind:
                if n not in defaults:
                    raise Unsupported(call, 'guard argument %s missing' % n)
                bind[n] = defaults[n]
        first = gnames[0]
        subject = call.args[0].id
        env = {}
        for n, v in bind.items():
            if n == first:
                env[n] = (mangle(subject), self.vars[subject])
            elif isinstance(v, ast.Constant) and isinstance(v.value, bool):
                env[n] = ('true' if v.value else 'false', BOOL)
            elif isinstance(v, ast.Constant) and isinstance(v.value, int):
                env[n] = ('(%d : Int)' % v.value, INT)
            elif isinstance(v, ast.Constant) and isinstance(v.value, str):
                env[n] = (str_lit(v.value), STR)
            else:
                raise Unsupported(v, 'guard arguments other than the subject must be constants')
        gbody = list(g.body)
        if gbody and isinstance(gbody[0], ast.Expr) and isinstance(gbody[0].value, ast.Constant):
            gbody = gbody[1:]
        conds = []
        ex = ExprTr(self, env_override=env)
        for st in gbody[:-1]:
            if (isinstance(st, ast.Assign) and len(st.targets) == 1 and isinstance(st.targets[0], ast.Name)
                    and st.targets[0].id == first and isinstance(st.value, ast.Call)
                    and isinstance(st.value.func, ast.Name) and st.value.func.id == 'int'
                    and len(st.value.args) == 1 and isinstance(st.value.args[0], ast.Name)
                    and st.value.args[0].id == first and self.vars[subject] == INT):
                continue                         # value = int(value): the identity on Int
            if isinstance(st, ast.If) and not st.orelse and len(st.body) == 1 and isinstance(st.body[0], ast.Raise):
                for n in ast.walk(st.test):
                    if isinstance(n, ast.Name) and n.id not in env:
                        raise Unsupported(n, 'free name in guard condition')
                conds.append(ex.cond(st.test))
                continue
            raise Unsupported(st, 'guard body statement')
        last = gbody[-1] if gbody else None
        if not (isinstance(last, ast.Return) and isinstance(last.value, ast.Name) and last.value.id == first):
            raise Unsupported(g, 'guard must end with `return <first parameter>`')
        if not conds:
            return 'true'
        return ' && '.join('!decide (%s)' % c for c in conds)

    # -- type inference --------------------------------------------------------------------
    def _infer_types(self):
        over = {n: parse_type(t) for n, t in self.spec.get('locals', {}).items()}
        for n, t in over.items():
            self.vars[n] = t
        for _ in range(6):
            before = dict(self.vars)
            self._infer_block(self.body)
            if before == self.vars:
                break
        for n, t in self.vars.items():
            if not known(t):
                raise Unsupported(self.f, 'type of variable %s could not be inferred' % n)

    def _bind(self, name, t, node):
        if name.startswith('self.'):
            raise Unsupported(node, 'assignment to an attribute')
        if self.self_name is not None and name == self.self_name:
            raise Unsupported(node, 'assignment to self')
        old = self.vars.get(name)
        if old is None and name not in self.vars:
            self.vars[name] = t
        else:
            self.vars[name] = unify(old, t, node)

    def _infer_target(self, tgt, t, node):
        if isinstance(tgt, ast.Name):
            self._bind(tgt.id, t, node)
        elif isinstance(tgt, (ast.Tuple, ast.List)):
            if t is not None and t[0] == 'Prod' and len(t[1]) == len(tgt.elts):
                for e, et in zip(tgt.elts, t[1]):
                    self._infer_target(e, et, node)
            elif t is None:
                for e in tgt.elts:
                    self._infer_target(e, None, node)
            else:
                raise Unsupported(node, 'unpacking a non-tuple')
        else:
            raise Unsupported(tgt, 'assignment target')

    def _type_of(self, node):
        try:
            return ExprTr(self, infer_only=True).expr(node)[1]
        except _Unknown:
            return None

    def _infer_block(self, stmts):
        for st in stmts:
            if isinstance(st, ast.Assign):
                t = self._type_of(st.value)
                for tgt in st.targets:
                    self._infer_target(tgt, t, st)
            elif isinstance(st, ast.AugAssign):
                if not isinstance(st.target, ast.Name):
                    raise Unsupported(st, 'augmented assignment target')
                t = self._type_of(ast.BinOp(left=st.target, op=st.op, right=st.value))
                self._bind(st.target.id, t, st)
            elif isinstance(st, ast.AnnAssign):
                raise Unsupported(st)
            elif isinstance(st, ast.For):
                it = self._iter_type(st.iter)
                self._infer_target(st.target, it, st)
                self._infer_block(st.body)
                self._infer_block(st.orelse)
            elif isinstance(st, ast.If):
                self._infer_block(st.body)
                self._infer_block(st.orelse)
            elif isinstance(st, ast.Expr) and isinstance(st.value, ast.Call):
                m = self._mutation(st.value)
                if m is not None:
                    var, op, arg = m
                    if op == 'append':
                        self._bind(var, ('List', self._type_of(arg)), st)

    def _iter_type(self, node):
        if isinstance(node, ast.Call) and isinstance(node.func, ast.Name) and node.func.id == 'range':
            return INT
        t = self._type_of(node)
        if t is None:
            return None
        if t[0] == 'List':
            return t[1]
        if t[0] == 'Str':
            raise Unsupported(node, 'iteration over a string')
        raise Unsupported(node, 'iteration over a non-list')

    def _mutation(self, call: ast.Call):
        """`v.append(e)` / `v.pop()` on a local list variable -> (v, op, arg)"""
        if isinstance(call.func, ast.Attribute) and isinstance(call.func.value, ast.Name) \
                and call.func.attr in ('append', 'pop') and not call.keywords:
            v = call.func.value.id
            if call.func.attr == 'append' and len(call.args) == 1:
                return v, 'append', call.args[0]
            if call.func.attr == 'pop' and not call.args:
                return v, 'pop', None
        return None

    # -- aliasing discipline for mutated lists ---------------------------------------------------
    def _check_mutation_discipline(self):
        """A list that is mutated in place (`append`, `pop`) must be a local that is only ever assigned a
        fresh list display, never copied to another variable by a bare name, never iterated while
        mutated.  Then in-place mutation = functional update of the variable."""
        mutated = set()
        for n in ast.walk(ast.Module(body=self.body, type_ignores=[])):
            if isinstance(n, ast.Call):
                m = self._mutation(n)
                if m is not None:
                    mutated.add(m[0])
        for v in mutated:
            if v in self.spec['params'] or v not in self.vars:
                raise Unsupported(self.f, 'in-place mutation of parameter / unknown %s' % v)
        for n in ast.walk(ast.Module(body=self.body, type_ignores=[])):
            if isinstance(n, ast.Assign):
                for tgt in n.targets:
                    if isinstance(tgt, ast.Name) and tgt.id in mutated and not isinstance(n.value, ast.List):
                        raise Unsupported(n, 'mutated list %s assigned from a non-fresh value' % tgt.id)
                if isinstance(n.value, ast.Name) and n.value.id in mutated:
                    raise Unsupported(n, 'alias of mutated list %s' % n.value.id)
                if isinstance(n.value, (ast.Tuple, ast.List)):
                    for e in ast.walk(n.value):
                        if isinstance(e, ast.Name) and e.id in mutated:
                            raise Unsupported(n, 'mutated list %s stored inside another value' % e.id)
            if isinstance(n, ast.Call) and self._mutation(n) is not None and self._mutation(n)[1] == 'append':
                for e in ast.walk(self._mutation(n)[2]):
                    if isinstance(e, ast.Name) and e.id in mutated:
                        raise Unsupported(n, 'mutated list appended to a list')
            if isinstance(n, ast.Yield) and n.value is not None:
                for e in ast.walk(n.value):
                    if isinstance(e, ast.Name) and e.id in mutated:
                        raise Unsupported(n, 'mutated list yielded')
            if isinstance(n, ast.For):
                names = {e.id for e in ast.walk(n.iter) if isinstance(e, ast.Name)}
                assigned = set()
                for b in ast.walk(ast.Module(body=n.body + n.orelse, type_ignores=[])):
                    if isinstance(b, ast.Call) and self._mutation(b) is not None:
                        assigned.add(self._mutation(b)[0])
                if names & assigned:
                    raise Unsupported(n, 'loop body mutates the list being iterated')

    # -- statements (CPS) ------------------------------------------------------------------------
    def block(self, stmts, k, ctx):
        """Lean term (free variable `s`) for the statement list followed by continuation term `k`"""
        if not stmts:
            return k
        st, rest = stmts[0], stmts[1:]
        ex = ExprTr(self)
        if isinstance(st, ast.Pass):
            return self.block(rest, k, ctx)
        if isinstance(st, ast.Expr) and isinstance(st.value, ast.Constant):
            return self.block(rest, k, ctx)                     # docstring / bare constant
        if isinstance(st, ast.Assign):
            upd = []
            if len(st.targets) != 1:
                raise Unsupported(st, 'chained assignment')
            self._assign(st.targets[0], st.value, upd, ex, st)
            return self._let_update(upd) + '\n' + self.block(rest, k, ctx)
        if isinstance(st, ast.AugAssign):
            if not isinstance(st.target, ast.Name) or self.vars.get(st.target.id) != INT:
                raise Unsupported(st, 'augmented assignment to a non-integer (in-place list update)')
            val = ast.BinOp(left=ast.Name(id=st.target.id, ctx=ast.Load()), op=st.op, right=st.value)
            ast.copy_location(val, st)
            ast.fix_missing_locations(val)
            e, t = ex.expr(val, self.vars[st.target.id])
            return self._let_update([(st.target.id, e)]) + '\n' + self.block(rest, k, ctx)
        if isinstance(st, ast.Expr) and isinstance(st.value, ast.Call) and self._mutation(st.value) is not None:
            var, op, arg = self._mutation(st.value)
            vt = self.vars[var]
            if vt[0] != 'List':
                raise Unsupported(st, '%s of a non-list' % op)
            if op == 'append':
                a, _ = ex.expr(arg, vt[1])
                e = 'PyRt.append s.%s %s' % (self.field(var), a)
            else:
                e = 'PyRt.popLast s.%s' % self.field(var)
            return self._let_update([(var, e)]) + '\n' + self.block(rest, k, ctx)
        if isinstance(st, ast.Expr) and isinstance(st.value, ast.Yield):
            if self.kind != 'generator':
                raise Unsupported(st, 'yield in a function')
            if st.value.value is None:
                raise Unsupported(st, 'bare yield')
            y, _ = ex.expr(st.value.value, self.result_t)
            return '%s ::\n%s' % (y, indent(paren(self.block(rest, k, ctx))))
        if isinstance(st, ast.Return):
            if self.kind == 'generator':
                if st.value is not None:
                    raise Unsupported(st, 'return with a value in a generator')
                return '[]'
            if st.value is None:
                v = ast.Constant(value=None)
                ast.copy_location(v, st)
            else:
                v = st.value
            e, _ = ex.expr(v, self.result_t)
            return e
        if isinstance(st, ast.Break):
            if ctx.get('kbreak') is None:
                raise Unsupported(st, 'break outside a loop')
            return ctx['kbreak']
        if isinstance(st, ast.Continue):
            if ctx.get('kcontinue') is None:
                raise Unsupported(st, 'continue outside a loop')
            return ctx['kcontinue']
        if isinstance(st, ast.If):
            kk, prefix = self._share(self.block(rest, k, ctx))
            c = ex.cond(st.test)
            a = self.block(st.body, kk, ctx)
            b = self.block(st.orelse, kk, ctx)
            return prefix + 'if %s then\n%s\nelse\n%s' % (c, indent(a), indent(b))
        if isinstance(st, ast.For):
            return self._for(st, rest, k, ctx, ex)
        raise Unsupported(st)

    def _share(self, term):
        """bind a continuation term once if it is not small: returns (term to use, `let` prefix)"""
        if '\n' not in term and len(term) <= 60:
            return term, ''
        name = self.fresh('k_')
        return '%s s' % name, 'let %s := fun (s : %s) =>\n%s\n' % (name, self.st, indent(term))

    def _let_update(self, upd):
        return 'let s : %s := { s with %s }' % (self.st, ', '.join('%s := %s' % (self.field(n), e) for n, e in upd))

    def _assign(self, tgt, value, upd, ex, node):
        if isinstance(tgt, ast.Name):
            if tgt.id not in self.vars or tgt.id.startswith('self.'):
                raise Unsupported(node, 'assignment target')
            e, _ = ex.expr(value, self.vars[tgt.id])
            if any(n == tgt.id for n, _ in upd):
                raise Unsupported(node, 'variable assigned twice in one tuple assignment')
            upd.append((tgt.id, e))
        elif isinstance(tgt, (ast.Tuple, ast.List)):
            if isinstance(value, (ast.Tuple, ast.List)) and len(value.elts) == len(tgt.elts):
                for t1, v1 in zip(tgt.elts, value.elts):
                    self._assign(t1, v1, upd, ex, node)      # all right-hand sides read the OLD state
            else:
                raise Unsupported(node, 'tuple assignment from a non-display')
        else:
            raise Unsupported(node, 'assignment target')

    def _for(self, st: ast.For, rest, k, ctx, ex):
        # element list, evaluated once in the state before the loop
        if isinstance(st.iter, ast.Call) and isinstance(st.iter.func, ast.Name) and st.iter.func.id == 'range':
            args = st.iter.args
            if st.iter.keywords or not 1 <= len(args) <= 3:
                raise Unsupported(st.iter, 'range arguments')
            es = [ex.expr(a, INT)[0] for a in args]
            if len(es) == 1:
                es = ['(0 : Int)', es[0], '(1 : Int)']
            elif len(es) == 2:
                es = [es[0], es[1], '(1 : Int)']
            items = 'PyRt.range %s %s %s' % tuple(es)
            et = INT
        else:
            items, lt = ex.expr(st.iter)
            if lt[0] != 'List':
                raise Unsupported(st.iter, 'iteration over a non-list')
            et = lt[1]
        # pattern for the loop variable(s)
        binds = []

        def pat(tgt, t):
            if isinstance(tgt, ast.Name):
                nm = 'x%d' % (len(binds) + 1)
                binds.append((tgt.id, nm))
                return nm
            if isinstance(tgt, (ast.Tuple, ast.List)) and t[0] == 'Prod' and len(t[1]) == len(tgt.elts):
                return '(' + ', '.join(pat(e, tt) for e, tt in zip(tgt.elts, t[1])) + ')'
            raise Unsupported(st, 'loop target')
        p = pat(st.target, et)
        loop = '%s.loop%d' % (self.name, len(self.loops) + 1)
        self.loops.append(None)                  # reserve the number (outer loops are numbered first)
        idx = len(self.loops) - 1
        again = '%s k kbreak xs s' % loop
        body = self.block(st.body, again, {'kbreak': 'kbreak s', 'kcontinue': again})
        R = show_type(self.R)
        text = ('def %s %s(k kbreak : %s → %s) : List %s → %s → %s\n'
                '  | [], s => k s\n'
                '  | %s :: xs, s =>\n%s\n%s\n' % (
                    loop, self.tbinder(), self.st, R, show_type(et, False), self.st, R, p,
                    indent(self._let_update([(n, v) for n, v in binds]), 4), indent(body, 4)))
        self.loops[idx] = text
        self.loop_texts.append(text)             # inner loops are completed (and emitted) before outer ones
        # continuations: normal exit runs the `else:` clause, `break` skips it
        after = self.block(rest, k, ctx)
        kb, prefix = self._share(after)
        if st.orelse:
            kn_term = self.block(st.orelse, kb, ctx)
        else:
            kn_term = kb
        kn, prefix2 = self._share(kn_term) if st.orelse else (kb, '')

        def as_fun(term):
            if term.endswith(' s') and ' ' not in term[:-2] and '\n' not in term:
                return term[:-2]                # `k_3 s` -> `k_3`
            return paren('fun (s : %s) => %s' % (self.st, term))
        return prefix + prefix2 + '%s %s %s %s s' % (loop, as_fun(kn), as_fun(kb), paren(items))

    # -- whole function ------------------------------------------------------------------------
    BUILTINS = ('len', 'min', 'max', 'int', 'list', 'tuple', 'bool', 'range')

    def emit(self):
        self._check_mutation_discipline()
        for n in self.vars:
            if n in self.BUILTINS:
                raise Unsupported(self.f, 'variable %s shadows a builtin the translator interprets' % n)
        for n in ast.walk(self.f):
            if isinstance(n, (ast.Global, ast.Nonlocal)):
                raise Unsupported(n)
        end = '[]' if self.kind == 'generator' else '⊥END⊥'
        body = self.block(self.body, end, {})
        if '⊥END⊥' in body:
            if self.R[0] == 'Option':
                body = body.replace('⊥END⊥', 'none')
            else:
                raise Unsupported(self.f, 'the function can fall off its end (implicit `return None`)')
        R = show_type(self.R)
        out = []
        fields = [(self.field(n), t) for n, t in self.vars.items()]
        out.append('/-- all Python variables of `%s` -/' % self.spec['qualname'])
        out.append('structure %s.St %swhere' % (self.name, self.tbinder(False)))
        for (py, _), (n, t) in zip(self.vars.items(), fields):
            out.append('  %s : %s%s' % (n, show_type(t), '' if n == py else '    -- ' + py))
        out.append('')
        for text in self.loop_texts:
            out.append(text)
        out.append('def %s.body %s(s : %s) : %s :=\n%s\n' % (self.name, self.tbinder(), self.st, R, indent(body)))
        plist = ' '.join('(%s : %s)' % (n, show_type(t)) for n, t in self.params)
        pnames = {n for n, _ in self.params}
        inits = []
        for n, t in fields:
            inits.append('%s := %s' % (n, n if n in pnames else default_of(t)))
        out.append('def %s %s%s : %s :=\n  %s.body { %s }\n' % (
            self.name, self.tbinder(), plist, R, self.name, ', '.join(inits)))
        pre = ' && '.join('(%s)' % c for c in self.pre_conjuncts) if self.pre_conjuncts else 'true'
        out.append('/-- no guard call of `%s` raises -/' % self.spec['qualname'])
        out.append('def %s_pre %s%s : Bool :=\n  %s\n' % (self.name, self.tbinder(), plist, pre))
        return '\n'.join(out)


class _Unknown(Exception):
    """type not known yet (during inference)"""


class ExprTr:
    """expressions: `expr(node, expected) -> (lean term, type)`, `cond(node) -> lean Prop`"""

    def __init__(self, fn: FnTranslator, env_override=None, infer_only=False):
        self.fn = fn
        self.env = env_override
        self.infer_only = infer_only

    # variables -------------------------------------------------------------------------------
    def var(self, name, node):
        if self.env is not None:
            if name not in self.env:
                raise Unsupported(node, 'free name %s' % name)
            return self.env[name]
        if name not in self.fn.vars:
            raise Unsupported(node, 'unknown name %s' % name)
        t = self.fn.vars[name]
        if t is None:
            raise _Unknown()
        return 's.' + self.fn.field(name), t

    def coerce(self, e, t, expected, node):
        if expected is None or t == expected:
            return e, t
        if not known(t):
            t2 = unify(t, expected, node)
            if t2 == expected:
                return e, expected
        if expected[0] == 'Option' and t[0] != 'Option':
            e2, _ = self.coerce(e, t, expected[1], node)
            return '(some %s)' % e2, expected
        if self.infer_only:
            return e, unify(t, expected, node)
        raise Unsupported(node, 'expected %s, found %s' % (expected, t))

    def expr(self, node, expected=None):
        e, t = self._expr(node, expected)
        return self.coerce(e, t, expected, node)

    def _expr(self, node, expected):
        if isinstance(node, ast.Constant):
            v = node.value
            if v is None:
                t = expected if expected is not None and expected[0] == 'Option' else ('Option', None)
                if not known(t) and not self.infer_only:
                    raise Unsupported(node, 'None of unknown type')
                return ('(none : %s)' % show_type(t)) if known(t) else 'none', t
            if isinstance(v, bool):
                return ('true' if v else 'false'), BOOL
            if isinstance(v, int):
                return '(%d : Int)' % v, INT
            if isinstance(v, str):
                return str_lit(v), STR
            raise Unsupported(node, 'constant of type %s' % type(v).__name__)
        if isinstance(node, ast.Name):
            return self.var(node.id, node)
        if isinstance(node, ast.Attribute):
            if isinstance(node.value, ast.Name) and node.value.id == self.fn.self_name and self.env is None \
                    and node.attr in self.fn.self_attrs:
                return self.var('self.' + node.attr, node)
            raise Unsupported(node, 'attribute access')
        if isinstance(node, ast.Tuple):
            if expected is not None and expected[0] == 'Prod' and len(expected[1]) == len(node.elts):
                parts = [self.expr(e, et) for e, et in zip(node.elts, expected[1])]
            else:
                parts = [self.expr(e) for e in node.elts]
            if len(parts) < 2:
                raise Unsupported(node, 'tuple of length < 2')
            return '(' + ', '.join(p[0] for p in parts) + ')', ('Prod', tuple(p[1] for p in parts))
        if isinstance(node, ast.List):
            et = expected[1] if expected is not None and expected[0] == 'List' else None
            if expected is not None and expected[0] == 'Str':
                raise Unsupported(node, 'list display where a string is expected')
            parts = []
            for e in node.elts:
                pe, pt = self.expr(e, et)
                et = unify(et, pt, node)
                parts.append(pe)
            t = ('List', et)
            if not parts:
                if known(t):
                    return '([] : %s)' % show_type(t), t
                if self.infer_only:
                    return '[]', t
                raise Unsupported(node, 'empty list of unknown element type')
            return '[' + ', '.join(parts) + ']', t
        if isinstance(node, ast.BinOp):
            return self._binop(node)
        if isinstance(node, ast.UnaryOp):
            if isinstance(node.op, ast.USub):
                e, t = self.expr(node.operand, INT)
                return '(-%s)' % e, INT
            if isinstance(node.op, ast.UAdd):
                return self.expr(node.operand, INT)
            if isinstance(node.op, ast.Not):
                return 'decide (%s)' % self.cond(node), BOOL
            raise Unsupported(node)
        if isinstance(node, ast.Compare):
            return 'decide (%s)' % self.cond(node), BOOL
        if isinstance(node, ast.BoolOp):
            # value context: only when every operand is a Bool (then `and`/`or` return Bools)
            for v in node.values:
                if self.expr(v)[1] != BOOL:
                    raise Unsupported(node, '`and`/`or` used for its operand value')
            return 'decide (%s)' % self.cond(node), BOOL
        if isinstance(node, ast.IfExp):
            a, ta = self.expr(node.body, expected)
            b, tb = self.expr(node.orelse, expected)
            t = unify(ta, tb, node)
            a, _ = self.coerce(a, ta, t, node)
            b, _ = self.coerce(b, tb, t, node)
            return '(if %s then %s else %s)' % (self.cond(node.test), a, b), t
        if isinstance(node, ast.Call):
            return self._call(node, expected)
        if isinstance(node, ast.Subscript):
            base, bt = self.expr(node.value)
            if bt[0] not in ('List', 'Str'):
                raise Unsupported(node, 'subscript of a non-sequence')
            if isinstance(node.slice, ast.Slice):
                sl = node.slice
                if sl.step is not None:
                    raise Unsupported(node, 'slice step')
                lo = '(some %s)' % self.expr(sl.lower, INT)[0] if sl.lower is not None else 'none'
                hi = '(some %s)' % self.expr(sl.upper, INT)[0] if sl.upper is not None else 'none'
                return '(PyRt.slice %s %s %s)' % (base, lo, hi), bt
            if bt[0] == 'Str':
                raise Unsupported(node, 'string indexing')
            i, _ = self.expr(node.slice, INT)
            if not known(bt):
                raise _Unknown()
            if bt[1][0] == 'Var':
                raise Unsupported(node, 'indexing a list of abstract items')
            return '(PyRt.index %s %s)' % (base, i), bt[1]
        raise Unsupported(node)

    def _binop(self, node):
        op = node.op
        l, lt = self.expr(node.left)
        r, rt = self.expr(node.right)
        if lt == INT and rt == INT:
            if isinstance(op, ast.Add):
                return '(%s + %s)' % (l, r), INT
            if isinstance(op, ast.Sub):
                return '(%s - %s)' % (l, r), INT
            if isinstance(op, ast.Mult):
                return '(%s * %s)' % (l, r), INT
            if isinstance(op, ast.FloorDiv):
                return '(PyRt.floordiv %s %s)' % (l, r), INT
            if isinstance(op, ast.Mod):
                return '(PyRt.mod %s %s)' % (l, r), INT
            raise Unsupported(node, 'integer operator')
        if lt[0] == 'List' and rt[0] == 'List' and isinstance(op, ast.Add):
            return '(%s ++ %s)' % (l, r), unify(lt, rt, node)
        raise Unsupported(node, 'operator on %s, %s' % (lt, rt))

    def _call(self, node: ast.Call, expected):
        fn = self.fn
        if node.keywords:
            raise Unsupported(node, 'keyword arguments')
        if isinstance(node.func, ast.Name):
            f = node.func.id
            a = node.args
            if f == 'len' and len(a) == 1:
                if isinstance(a[0], ast.Name) and a[0].id == fn.self_name and self.env is None:
                    if not fn.self_len:
                        raise Unsupported(node, 'len(self) not declared in the spec')
                    return self.var('self.__len__', node)
                e, t = self.expr(a[0])
                if t[0] not in ('List', 'Str'):
                    raise Unsupported(node, 'len of a non-sequence')
                return '(PyRt.len %s)' % e, INT
            if f in ('min', 'max') and len(a) == 2:
                x, _ = self.expr(a[0], INT)
                y, _ = self.expr(a[1], INT)
                return '(%s %s %s)' % (f, x, y), INT
            if f == 'int' and len(a) == 1:
                e, t = self.expr(a[0])
                if t == INT:
                    return e, INT
                if t == BOOL:
                    return '(PyRt.ofBool %s)' % e, INT
                raise Unsupported(node, 'int() of %s' % (t,))
            if f in ('list', 'tuple') and len(a) == 1:
                e, t = self.expr(a[0], expected if expected and expected[0] == 'List' else None)
                if t[0] != 'List':
                    raise Unsupported(node, '%s() of a non-list' % f)
                return e, t
            if f == 'bool' and len(a) == 1:
                return 'decide (%s)' % self.cond(a[0]), BOOL
        raise Unsupported(node, 'call')

    # conditions (Lean Prop, decidable) ------------------------------------------------------------
    def cond(self, node) -> str:
        if isinstance(node, ast.BoolOp):
            sep = ' ∧ ' if isinstance(node.op, ast.And) else ' ∨ '
            return '(' + sep.join(self.cond(v) for v in node.values) + ')'
        if isinstance(node, ast.UnaryOp) and isinstance(node.op, ast.Not):
            return '(¬ %s)' % self.cond(node.operand)
        if isinstance(node, ast.Compare):
            parts = []
            left = node.left
            for op, right in zip(node.ops, node.comparators):
                parts.append(self._compare(left, op, right, node))
                left = right
            return parts[0] if len(parts) == 1 else '(' + ' ∧ '.join(parts) + ')'
        if isinstance(node, ast.Constant) and isinstance(node.value, bool):
            return 'True' if node.value else 'False'
        e, t = self.expr(node)
        return self.truthy(e, t, node)

    def truthy(self, e, t, node):
        if t == BOOL:
            return '(%s = true)' % e
        if t == INT:
            return '(%s ≠ 0)' % e
        if t[0] in ('List', 'Str'):
            return '(%s ≠ [])' % e
        if t[0] == 'Option' and known(t) and t[1][0] not in ('Int', 'Bool', 'List', 'Str', 'Option'):
            return '(%s ≠ none)' % e
        raise Unsupported(node, 'truth value of %s' % (t,))

    def _compare(self, left, op, right, node):
        if isinstance(op, (ast.In, ast.NotIn)):
            l, lt = self.expr(left)
            if isinstance(right, (ast.Tuple, ast.List)):
                if not right.elts:
                    raise Unsupported(node, 'membership in an empty display')
                eqs = []
                for e in right.elts:
                    r, rt = self.expr(e, lt)
                    if not has_deceq(unify(lt, rt, node)):
                        raise Unsupported(node, 'equality on %s' % (lt,))
                    eqs.append('%s = %s' % (l, r))
                p = '(' + ' ∨ '.join(eqs) + ')'
            else:
                r, rt = self.expr(right)
                if rt[0] != 'List' or not has_deceq(unify(lt, rt[1], node)):
                    raise Unsupported(node, 'membership in %s' % (rt,))
                p = '(PyRt.contains %s %s = true)' % (r, l)
            return p if isinstance(op, ast.In) else '(¬ %s)' % p
        if isinstance(op, (ast.Is, ast.IsNot)):
            if isinstance(right, ast.Constant) and right.value is None:
                l, lt = self.expr(left)
                if lt[0] != 'Option':
                    raise Unsupported(node, '`is None` on a value that is never None')
                return '(%s %s none)' % (l, '=' if isinstance(op, ast.Is) else '≠')
            raise Unsupported(node, '`is` comparison')
        l, lt = self.expr(left)
        r, rt = self.expr(right, lt if known(lt) else None)
        if not known(lt):
            l, lt = self.expr(left, rt)
        if isinstance(op, (ast.Eq, ast.NotEq)):
            t = unify(lt, rt, node)
            if lt != rt or not has_deceq(t):
                raise Unsupported(node, 'equality between %s and %s' % (lt, rt))
            return '(%s %s %s)' % (l, '=' if isinstance(op, ast.Eq) else '≠', r)
        if lt != INT or rt != INT:
            raise Unsupported(node, 'ordering on %s, %s' % (lt, rt))
        sym = {ast.Lt: '<', ast.LtE: '≤', ast.Gt: '>', ast.GtE: '≥'}.get(type(op))
        if sym is None:
            raise Unsupported(node, 'comparison operator')
        return '(%s %s %s)' % (l, sym, r)


# ---------------------------------------------------------------------------------------- modules

def _find_function(tree: ast.Module, qualname: str):
    cur = tree.body
    node = None
    for part in qualname.split('.'):
        node = None
        for n in cur:
            if isinstance(n, (ast.FunctionDef, ast.ClassDef)) and n.name == part:
                node = n                          # the LAST definition of the name wins, as in Python
        if node is None:
            raise Unsupported('module', 'no definition of %s' % qualname)
        cur = node.body
    if not isinstance(node, ast.FunctionDef):
        raise Unsupported(node, '%s is not a plain function' % qualname)
    if node.decorator_list:
        raise Unsupported(node, 'decorated function')
    node._module_tree = tree                     # for the desugaring pre-pass (module constants, helpers)
    return node


def translate_module(module_name: str, specs: list, repo: str):
    """-> (Lean source of Generated/Src_<module>.lean, info list)"""
    mod = importlib.import_module(module_name)
    path = os.path.abspath(inspect.getsourcefile(mod))
    if not path.startswith(os.path.abspath(repo) + os.sep):
        raise RuntimeError('%s imported from %s, not from %s' % (module_name, path, repo))
    src = inspect.getsource(mod)
    with open(path) as fh:
        if fh.read() != src:
            # the import cache and the working tree differ: read the file (the check runs in a fresh process)
            fh.seek(0)
            src = fh.read()
    return translate_source(src, specs, module_name, os.path.relpath(path, os.path.abspath(repo)))


def translate_source(src: str, specs: list, module_name: str, rel: str):
    """translate the functions named by `specs` out of the module source text `src`"""
    tree = ast.parse(src)
    module_defs = {n.name: n for n in tree.body if isinstance(n, ast.FunctionDef)}
    short = module_name.split('.')[-1]
    parts, infos, head = [], [], []
    for spec in specs:
        info = {'function': '%s.%s' % (module_name, spec['qualname']), 'source_file': rel, 'lines': None,
                'lean_def': 'Src.%s.%s' % (short, spec['lean_name']),
                'lean_pre': 'Src.%s.%s_pre' % (short, spec['lean_name']),
                'tie_theorem': spec['tie_theorem']}
        infos.append(info)
        try:
            fdef = _find_function(tree, spec['qualname'])
            info['lines'] = '%d-%d' % (fdef.lineno, fdef.end_lineno)
            tr = FnTranslator(fdef, spec, module_defs)
            info.update(tr.prepass)              # which desugarings of py2lean_prepass were applied, if any
            text = tr.emit()
        except (Unsupported, _Unknown, RecursionError) as e:
            # outside the subset: no definition is emitted, so the tie theorem of this function stops
            # checking (and is named by the audit); the other functions of the module are unaffected
            info['error'] = str(e) or type(e).__name__
            parts.append('-- NOT TRANSLATED: %s: %s\n' % (spec['qualname'], info['error'].replace('\n', ' ')))
            head.append('  %s -> NOT TRANSLATED' % spec['qualname'])
            continue
        parts.append(text)
        head.append('  %s (lines %s) -> Src.%s.%s' % (spec['qualname'], info['lines'], short, spec['lean_name']))
    out = ('/- GENERATED by harness/py2lean.py from %s - do not edit.\n'
           '   Shallow CPS translation of the current source text (rules: notes/SRCTIE.md):\n%s\n-/\n'
           'import BoltonsVerif.PyRt\n\nnamespace Src.%s\n\n%s\nend Src.%s\n' % (
               rel, '\n'.join(head), short, '\n'.join(parts), short))
    return out, infos


def generate(pid: str, repo: str):
    """all generated files of one property: ({file name: text}, infos)"""
    import srctie_specs
    mods = {spec['module'] for spec in srctie_specs.SPECS.get(pid, [])}
    by_mod = {}
    for p in sorted(srctie_specs.SPECS):       # a module file holds the functions of every property using it
        for spec in srctie_specs.SPECS[p]:
            if spec['module'] in mods:
                by_mod.setdefault(spec['module'], []).append(spec)
    files, infos = {}, []
    for module_name in sorted(by_mod):
        text, inf = translate_module(module_name, by_mod[module_name], repo)
        files['Src_%s.lean' % module_name.split('.')[-1]] = text
        infos.extend(inf)
    return files, infos


if __name__ == '__main__':
    import sys
    sys.path.insert(0, os.path.join(os.path.dirname(os.path.abspath(__file__))))
    from bv import common
    common.ensure_repo_on_path()
    for pid in sys.argv[1:]:
        fs, inf = generate(pid, common.REPO)
        for name, text in fs.items():
            print('-- ' + name)
            print(text)
