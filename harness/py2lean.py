"""py2lean - source translator of the SrcTie: restricted Python  ->  Lean 4 definitions.

A small compiler from a restricted, first-order subset of Python (integers, booleans, strings,
lists, tuples; assignments, `if`, `for` over a list / `range`, `break`, `continue`, `return`,
`yield`) to Lean 4 source text.  The embedding is SHALLOW (a Python function becomes a Lean
function) and in continuation-passing style: every statement list becomes a Lean term of the
result type with one free variable `s : <f>.St`, the record of all Python variables.

The translation rules are specified in notes/SRCTIE.md; this file is in the trusted base of the
source tie and is validated against CPython by harness/py2lean_selftest.py.

Public API:
    translate_module(module_name, specs) -> (lean_source_text, [info dict per function])
    generate(pid) -> ({generated file name: text}, [info...])        (specs from srctie_specs.py)
Anything outside the subset raises `Unsupported`.
"""
from __future__ import annotations

import ast
import importlib
import inspect
import os

LEAN_RESERVED = {
    'at', 'from', 'fun', 'let', 'in', 'end', 'do', 'if', 'then', 'else', 'match', 'with', 'have',
    'show', 'by', 'where', 'open', 'def', 'theorem', 'example', 'instance', 'structure', 'class',
    'namespace', 'section', 'variable', 'universe', 'import', 'return', 'for', 'unless', 'try',
    'catch', 'finally', 'mut', 'nomatch', 'nofun', 'Type', 'Sort', 'Prop', 'forall', 'exists',
    'using', 'calc', 'deriving', 'extends', 'private', 'protected', 'partial', 'mutual', 'macro',
    'syntax', 'notation', 'infix', 'infixl', 'infixr', 'prefix', 'postfix', 'set_option', 'attribute',
    's', 'k', 'kbreak', 'x', 'xs',      # names the generated code itself binds
    'self', 'fuel', 'lfuel', 'kexc', 'default',  # (methods of a class / raising mode)
}


class Unsupported(Exception):
    """the source uses something outside the translated subset"""

    def __init__(self, node, why=''):
        self.node, self.why = node, why
        where = ''
        if isinstance(node, ast.AST) and hasattr(node, 'lineno'):
            where = ' at line %d' % node.lineno
        what = type(node).__name__ if isinstance(node, ast.AST) else str(node)
        super().__init__('unsupported %s%s%s' % (what, where, (': ' + why) if why else ''))


# ---------------------------------------------------------------------------------------- types
# A type is a tuple: ('Int',) ('Bool',) ('Str',) ('Var', 'α') ('List', T|None) ('Option', T|None)
# ('Prod', (T1, T2, ...)) ('Dict', K, V) ('Unit',); None inside = not yet known.

INT, BOOL, STR, UNIT = ('Int',), ('Bool',), ('Str',), ('Unit',)
# --- heap mode (object store, notes/SRCTIE.md "Object store"): ('Val',) a dynamically typed PyHeap.Val,
# ('Heap',) the store, ('Fun', A, B) a callable A -> Except PyExc B held in an attribute, ('Sentinel',) the type of
# a sentinel NAME (`_MISSING`) before it is coerced to `none` of an Option / `Val.sentinel`
VAL, HEAP, SENTINEL = ('Val',), ('Heap',), ('Sentinel',)
HEAP_TP = ['κ', 'ν']          # the two item types of the class being translated (its spec: heap.key / heap.val)
SENTINEL_NAMES = set()         # heap mode: sentinel names read natively (not rewritten to None) in this function


def parse_type(text: str):
    toks = []
    i = 0
    while i < len(text):
        c = text[i]
        if c.isspace():
            i += 1
        elif c in '()×':
            toks.append(c)
            i += 1
        elif c == '*':
            toks.append('×')
            i += 1
        else:
            j = i
            while j < len(text) and not text[j].isspace() and text[j] not in '()×*':
                j += 1
            toks.append(text[i:j])
            i = j
    pos = [0]

    def peek():
        return toks[pos[0]] if pos[0] < len(toks) else None

    def eat():
        pos[0] += 1
        return toks[pos[0] - 1]

    def atom():
        t = eat()
        if t == '(':
            r = prod()
            if eat() != ')':
                raise ValueError('bad type ' + text)
            return r
        if t == 'Int':
            return INT
        if t == 'Bool':
            return BOOL
        if t == 'Str':
            return STR
        if t in ('List', 'Option', 'Set'):
            return (t, atom())
        if t == 'Dict':
            kt = atom()
            return ('Dict', kt, atom())
        if t in ('None', 'Unit'):
            return UNIT
        if t == 'Val':
            return VAL
        if t == 'Heap':
            return HEAP
        if t == 'Counter':
            return ('Counter',)
        if t == 'Fun':
            a = atom()
            return ('Fun', a, atom())
        if t and t[0] in 'αβγδκν':
            return ('Var', t)
        raise ValueError('bad type ' + text)

    def prod():
        parts = [atom()]
        while peek() == '×':
            eat()
            parts.append(atom())
        return parts[0] if len(parts) == 1 else ('Prod', tuple(parts))

    r = prod()
    if pos[0] != len(toks):
        raise ValueError('bad type ' + text)
    return r


def show_type(t, top=True) -> str:
    """Lean text of a type; `top=False`: parenthesised when it is an application / product"""
    if t is None:
        raise Unsupported('type', 'a variable type could not be inferred (give it in the spec `locals`)')
    k = t[0]
    if k == 'Int':
        r = 'Int'
    elif k == 'Bool':
        r = 'Bool'
    elif k == 'Str':
        r = 'List Char'
    elif k == 'Var':
        r = t[1]
    elif k in ('List', 'Option'):
        r = '%s %s' % (k, show_type(t[1], False))
    elif k == 'Set':
        r = 'PyRt.Set %s' % show_type(t[1], False)
    elif k == 'Prod':
        r = ' × '.join(show_type(x, False) for x in t[1])
    elif k == 'Dict':
        r = 'PyRt.Dict %s %s' % (show_type(t[1], False), show_type(t[2], False))
    elif k == 'Unit':
        r = 'Unit'
    elif k == 'Val':
        r = 'PyHeap.Val %s %s' % tuple(HEAP_TP)
    elif k == 'Heap':
        r = 'PyHeap.Heap %s %s' % tuple(HEAP_TP)
    elif k == 'Counter':
        r = 'Int'
    elif k == 'Fun':
        r = '%s → Except PyExc %s' % (show_type(t[1], False), show_type(t[2], False))
    else:
        raise ValueError(t)
    if top or ' ' not in r:
        return r
    return '(' + r + ')'


def unify(a, b, node=None):
    """least upper bound of two (partially known) types; Unsupported when they disagree"""
    if a is None:
        return b
    if b is None:
        return a
    if a == b:
        return a
    if a[0] == b[0] and a[0] in ('List', 'Option', 'Set'):
        return (a[0], unify(a[1], b[1], node))
    if a[0] == 'Prod' and b[0] == 'Prod' and len(a[1]) == len(b[1]):
        return ('Prod', tuple(unify(x, y, node) for x, y in zip(a[1], b[1])))
    if a[0] == 'Dict' and b[0] == 'Dict':
        return ('Dict', unify(a[1], b[1], node), unify(a[2], b[2], node))
    # heap mode: a sentinel name is `none` of an Option / `Val.sentinel`; a key / value / int / None flows into
    # a dynamically typed variable boxed
    if a == SENTINEL or b == SENTINEL:
        o = b if a == SENTINEL else a
        return o if o[0] in ('Option', 'Val') else ('Option', o)
    if (a == VAL and boxable(b)) or (b == VAL and boxable(a)):
        return VAL
    # T and Option T  (a value that may be None)
    if a[0] == 'Option' and b[0] != 'Option':
        return ('Option', unify(a[1], b, node))
    if b[0] == 'Option' and a[0] != 'Option':
        return ('Option', unify(a, b[1], node))
    raise Unsupported(node if node is not None else 'type', 'conflicting types %s / %s' % (a, b))


def boxable(t) -> bool:
    """heap mode: static types whose values can be stored in a `Val`"""
    return t is not None and (t == INT or t == SENTINEL or (t[0] == 'Var' and t[1] in HEAP_TP)
                              or (t[0] == 'Option' and t[1] is None))


def box(e, t, node=None):
    """Lean term of the `Val` holding the statically typed value `e : t`"""
    if t == VAL:
        return e
    if t == INT:
        return '(PyHeap.Val.int %s)' % e
    if t == SENTINEL:
        return 'PyHeap.Val.sentinel'
    if t[0] == 'Option' and t[1] is None:
        return 'PyHeap.Val.none'
    if t[0] == 'Var' and t[1] == HEAP_TP[0]:
        return '(PyHeap.Val.key %s)' % e
    if t[0] == 'Var' and t[1] == HEAP_TP[1]:
        return '(PyHeap.Val.val %s)' % e
    raise Unsupported(node if node is not None else 'type', 'a value of type %s stored in the object store' % (t,))


def known(t) -> bool:
    if t is None:
        return False
    if t[0] == 'Fun':
        return known(t[1]) and known(t[2])
    if t[0] in ('List', 'Option', 'Set'):
        return known(t[1])
    if t[0] == 'Prod':
        return all(known(x) for x in t[1])
    if t[0] == 'Dict':
        return known(t[1]) and known(t[2])
    return True


def default_of(t, inhabited=()) -> str:
    k = t[0]
    if k == 'Int':
        return '(0 : Int)'
    if k == 'Bool':
        return 'false'
    if k in ('Str', 'List'):
        return '([] : %s)' % show_type(t)
    if k == 'Option':
        return '(none : %s)' % show_type(t)
    if k == 'Prod':
        return '(' + ', '.join(default_of(x, inhabited) for x in t[1]) + ')'
    if k == 'Dict':
        return '([] : %s)' % show_type(t)
    if k == 'Set':
        return '(PyRt.Set.empty : %s)' % show_type(t)
    if k == 'Unit':
        return '()'
    if k == 'Val':
        return '(PyHeap.Val.none : %s)' % show_type(t)
    if k == 'Heap':
        return '(PyHeap.Heap.empty : %s)' % show_type(t)
    if k == 'Counter':
        return '(0 : Int)'
    if k == 'Var' and t[1] in inhabited:
        return '(default : %s)' % t[1]
    raise Unsupported('type', 'a local variable of abstract type %s has no initial value' % (t,))


def has_deceq(t, deceq=()) -> bool:
    k = t[0]
    if k in ('Int', 'Bool', 'Str', 'Unit'):
        return True
    if k in ('List', 'Option'):
        return t[1] is not None and has_deceq(t[1], deceq)
    if k == 'Prod':
        return all(x is not None and has_deceq(x, deceq) for x in t[1])
    if k == 'Dict':
        return all(x is not None and has_deceq(x, deceq) for x in t[1:])
    if k == 'Var':
        return t[1] in deceq
    return False


def lean_field(attr: str) -> str:
    """record field of a class attribute: leading underscores dropped (`_count_map` -> `count_map`)"""
    return mangle(attr.lstrip('_') or attr)


def prod_proj(base: str, i: int, n: int) -> str:
    """component `i` of an `n`-ary product (right-nested pairs)"""
    if i == n - 1:
        return base + '.2' * i
    return base + '.2' * i + '.1'


def mangle(name: str) -> str:
    return name + '_' if name in LEAN_RESERVED else name


def char_lit(c: str) -> str:
    o = ord(c)
    if c == "'":
        return "'\\''"
    if c == '\\':
        return "'\\\\'"
    if 32 <= o < 127:
        return "'%s'" % c
    return "(Char.ofNat %d)" % o


def str_lit(v: str) -> str:
    if v == '':
        return '([] : List Char)'
    return '([' + ', '.join(char_lit(c) for c in v) + '] : List Char)'


def indent(text: str, n: int = 2) -> str:
    pad = ' ' * n
    return '\n'.join(pad + ln if ln else ln for ln in text.split('\n'))


def paren(text: str) -> str:
    if '\n' in text:
        return '(\n' + indent(text) + ')'
    return '(' + text + ')'


# ---------------------------------------------------------------------------------------- flow (None-narrowing)

def narrow(test):
    """(variables known not to be None when `test` is true, ... when it is false)"""
    e = frozenset()
    if isinstance(test, ast.Compare) and len(test.ops) == 1 and isinstance(test.left, ast.Name) \
            and ((isinstance(test.comparators[0], ast.Constant) and test.comparators[0].value is None)
                 or (isinstance(test.comparators[0], ast.Name) and test.comparators[0].id in SENTINEL_NAMES)):
        if isinstance(test.ops[0], ast.IsNot):
            return frozenset([test.left.id]), e
        if isinstance(test.ops[0], ast.Is):
            return e, frozenset([test.left.id])
    if isinstance(test, ast.UnaryOp) and isinstance(test.op, ast.Not):
        t, f = narrow(test.operand)
        return f, t
    if isinstance(test, ast.BoolOp):
        parts = [narrow(v) for v in test.values]
        ts, fs = [p[0] for p in parts], [p[1] for p in parts]
        if isinstance(test.op, ast.And):
            return frozenset().union(*ts), frozenset.intersection(*fs)
        return frozenset.intersection(*ts), frozenset().union(*fs)
    return e, e


def terminates(stmts) -> bool:
    """control never falls out of the end of the statement list"""
    if not stmts:
        return False
    last = stmts[-1]
    if isinstance(last, (ast.Return, ast.Raise, ast.Break, ast.Continue)):
        return True
    if isinstance(last, ast.If):
        return terminates(last.body) and terminates(last.orelse)
    return False


def assigned_names(stmts):
    out = set()
    for n in ast.walk(ast.Module(body=list(stmts), type_ignores=[])):
        tg = []
        if isinstance(n, ast.Assign):
            tg = n.targets
        elif isinstance(n, (ast.AugAssign, ast.For)):
            tg = [n.target]
        for t in tg:
            for e in ast.walk(t):
                if isinstance(e, ast.Name):
                    out.add(e.id)
    return frozenset(out)


NONNULL_CALLS = set()       # round 3e (additive): names of extension operations (`%c01.unbox_key`) whose result is never None


def _nn_through(stmts, nn):
    """round 3e (additive; only consulted when an extension module registered NONNULL_CALLS): the names known not to be
    None where control falls out of the end of `stmts`; None when it never does.  A name assigned from a registered
    never-None operation becomes known; any other assignment forgets the name."""
    nn = set(nn)
    for st in stmts:
        if isinstance(st, (ast.Return, ast.Raise, ast.Break, ast.Continue)):
            return None
        if isinstance(st, ast.If):
            t_, f_ = narrow(st.test)
            a = _nn_through(st.body, nn | t_)
            b = _nn_through(st.orelse, nn | f_)
            if a is None and b is None:
                return None
            nn = set(b if a is None else a if b is None else (a & b))
            continue
        nn -= assigned_names([st])
        if isinstance(st, ast.Assign) and len(st.targets) == 1 and isinstance(st.targets[0], ast.Name) \
                and isinstance(st.value, ast.Call) and isinstance(st.value.func, ast.Name) \
                and st.value.func.id in NONNULL_CALLS:
            nn.add(st.targets[0].id)
    return nn


def flow_after_if(st: ast.If, nn):
    t_, f_ = narrow(st.test)
    after = set(nn)
    if terminates(st.body):
        after |= f_
    if st.orelse and terminates(st.orelse):
        after |= t_
    out = frozenset(after) - assigned_names([st])
    if NONNULL_CALLS:
        extra = _nn_through([st], nn)
        if extra:
            out |= frozenset(extra) & assigned_names([st])
    return out


# ---------------------------------------------------------------------------------------- classes

MUTATING_METHODS = {'append', 'pop', 'add', 'discard', 'remove', 'update', 'clear', 'setdefault', 'extend',
                    'insert', 'popitem', 'sort', 'reverse', '__setitem__', '__delitem__'}
EXC_NAMES = ('KeyError', 'ValueError', 'TypeError', 'IndexError', 'ZeroDivisionError', 'StopIteration',
             'RecursionError')
DUNDER_OF_SUBSCRIPT = '__getitem__'


def self_rooted(node, self_name) -> bool:
    """is the place expression rooted at an attribute of `self`: self.a, self.a[k], self.a[k][0] ..."""
    while isinstance(node, (ast.Subscript, ast.Attribute)):
        if isinstance(node, ast.Attribute) and isinstance(node.value, ast.Name) and node.value.id == self_name:
            return True
        node = node.value
    return False


def method_specs(cls, pyname):
    return [sp for sp in cls.get('methods', []) if sp['py'] == pyname] + \
        [sp for sp in cls.get('_helpers', {}).values() if isinstance(sp, dict) and sp['py'] == pyname]


def spec_type(t) -> str:
    """spec text of a type (inverse of `parse_type`)"""
    k = t[0]
    if k in ('Int', 'Bool', 'Str'):
        return k
    if k == 'Unit':
        return 'None'
    if k == 'Var':
        return t[1]
    if k in ('List', 'Option', 'Set'):
        return '%s (%s)' % (k, spec_type(t[1]))
    if k == 'Prod':
        return ' × '.join('(%s)' % spec_type(x) for x in t[1])
    if k == 'Dict':
        return 'Dict (%s) (%s)' % (spec_type(t[1]), spec_type(t[2]))
    raise ValueError(t)


def method_mutates(cls, fdef, tree, seen=()) -> bool:
    """syntactic: does the method (or a translated method it calls on `self`) change the object state?"""
    if cls.get('clsprep') and tree is not None:
        # round 3b: judged on the method as the class pre-pass leaves it (a store through a local alias of an
        # attribute is a store into the attribute)
        import py2lean_clsprep
        cache = cls.setdefault('_prep_cache', {})
        key = (id(tree), fdef.name, fdef.lineno)
        if key not in cache:
            cache[key] = py2lean_clsprep.run(fdef, tree, {'cls': cls})
        fdef = cache[key]
    self_name = fdef.args.args[0].arg
    for n in ast.walk(fdef):
        targets = []
        if cls.get('heap') and isinstance(n, ast.List) and isinstance(n.ctx, ast.Load):
            return True                                          # heap mode: a list display allocates a cell
        if cls.get('heap') and isinstance(n, ast.Call) and (
                (isinstance(n.func, ast.Name) and n.func.id == 'next')
                or (cls.get('backend') and isinstance(n.func, ast.Attribute)
                    and n.func.attr in (cls['backend']['push'], cls['backend']['pop']))):
            return True                                          # a counter advanced / the backend changed
        if isinstance(n, ast.Assign):
            targets = n.targets
        elif isinstance(n, (ast.AugAssign, ast.AnnAssign)):
            targets = [n.target]
        elif isinstance(n, ast.Delete):
            targets = n.targets
        for t in targets:
            for e in (t.elts if isinstance(t, (ast.Tuple, ast.List)) else [t]):
                if self_rooted(e, self_name):
                    return True
                if isinstance(e, ast.Subscript) and isinstance(e.value, ast.Name) and e.value.id == self_name:
                    return True                                  # self[k] = v / del self[k]
                if cls.get('heap') and isinstance(e, ast.Subscript):
                    return True                                  # heap mode: x[i] = v writes the object store
        if isinstance(n, ast.Call) and isinstance(n.func, ast.Attribute):
            if self_rooted(n.func.value, self_name) and n.func.attr in MUTATING_METHODS:
                return True
            if isinstance(n.func.value, ast.Name) and n.func.value.id == 'dict' and n.func.attr in MUTATING_METHODS \
                    and n.args and (self_rooted(n.args[0], self_name)
                                    or (isinstance(n.args[0], ast.Name) and n.args[0].id == self_name)):
                return True                                      # dict.__setitem__(self, ...) and the like
            on_peer = cls.get('helpers') and cls.get('peer') and isinstance(n.func.value, ast.Attribute) \
                and isinstance(n.func.value.value, ast.Name) and n.func.value.value.id == self_name \
                and n.func.value.attr == cls['peer']['attr']
            if (isinstance(n.func.value, ast.Name) and n.func.value.id == self_name) or on_peer:
                sps = [sp for sp in method_specs(cls, n.func.attr) if not sp.get('helper')]
                for sp in sps:
                    if sp['lean_name'] in seen:
                        continue
                    callee = _find_function(tree, sp['qualname'])
                    if method_mutates(cls, callee, tree, seen + (sp['lean_name'],)):
                        return True
                if not sps and cls.get('helpers') and tree is not None:
                    # round 3b: a method of the class that the spec does not list (translated on demand)
                    import py2lean_clsprep
                    h = py2lean_clsprep.plain_method(tree, cls['name'], n.func.attr)
                    tag = 'helper:' + n.func.attr
                    if h is not None and tag not in seen and method_mutates(cls, h, tree, seen + (tag,)):
                        return True
    return False


# ---------------------------------------------------------------------------------------- function translator

class FnTranslator:
    def __init__(self, fdef: ast.FunctionDef, spec: dict, module_defs: dict, tree=None, emitted=None):
        import py2lean_prepass                   # desugaring into the subset; the identity when nothing applies
        self.prepass = {}
        self.heap = (spec.get('cls') or {}).get('heap')     # --- heap mode: the class has an object store
        hnotes = set()
        if self.heap:
            import py2lean_heap
            HEAP_TP[:] = [self.heap.get('key', 'κ'), self.heap.get('val', 'ν')]
            fdef = py2lean_heap.prepass(fdef, getattr(fdef, '_module_tree', None), spec['cls'], spec, hnotes)
        self.ext = spec.get('ext') or (spec.get('cls') or {}).get('ext')     # --- extension module (spec `ext`)
        if self.ext:
            fdef = importlib.import_module(self.ext).prepass(fdef, tree, spec, hnotes)
        fdef = py2lean_prepass.run(fdef, getattr(fdef, '_module_tree', None), spec, self.prepass)
        if hnotes:
            self.prepass['prepass'] = sorted(set(self.prepass.get('prepass', [])) | hnotes)
        if (spec.get('cls') or {}).get('clsprep'):          # round 3b: class-level desugaring (aliases, loops)
            import py2lean_clsprep
            fdef = py2lean_clsprep.run(fdef, getattr(fdef, '_module_tree', None) or tree, spec, self.prepass)
        self.f = fdef
        self.spec = spec
        self.module_defs = module_defs          # name -> ast.FunctionDef of module-level functions
        self.tree = tree                        # the module (methods calling methods)
        self.emitted = emitted                  # lean names already translated in this module (None: unchecked)
        self.name = spec['lean_name']
        self.kind = spec['kind']                # 'function' | 'generator'
        self.cls = spec.get('cls')              # class description of a method with object state, or None
        self.raises = bool(spec.get('raises', False))      # raising mode: exceptions as values
        self.fuel = bool(spec.get('fuel', False))          # (mutually) recursive method: explicit call depth
        self.loop_fuel = bool(spec.get('loop_fuel', False))    # `while` loops: explicit iteration bound `lfuel`
        self.hcount = 0                         # hoisted partial operations v1, v2 ...
        self.cls_state = {}
        self.cls_mut = False
        if self.cls is not None:
            self.cls_state = {a: parse_type(t) for a, t in self.cls['state'].items()}
            fields = [lean_field(a) for a in self.cls_state]
            if len(set(fields)) != len(fields):
                raise Unsupported(fdef, 'class attributes collide after dropping underscores')
            self.cls_mut = method_mutates(self.cls, fdef, tree)
            if self.cls_mut and self.kind == 'generator':
                raise Unsupported(fdef, 'a generator that changes the object state')
        self.tparams = list(spec.get('tparams', (self.cls or {}).get('tparams', [])))
        self.deceq = list(spec.get('deceq', (self.cls or {}).get('deceq', [])))
        self.inhab = list(spec.get('inhabited', (self.cls or {}).get('inhabited', [])))    # type variables that only need a default value
        sentinels = list(spec.get('sentinels', (self.cls or {}).get('sentinels', [])))
        self.sentinels = []
        SENTINEL_NAMES.clear()
        if sentinels and self.heap:
            # heap mode: a sentinel name is read natively (`none` of an Option, `Val.sentinel` in the store)
            self.sentinels = sentinels
            SENTINEL_NAMES.update(sentinels)
            for n in ast.walk(fdef):
                if isinstance(n, ast.Name) and n.id in sentinels and not isinstance(n.ctx, ast.Load):
                    raise Unsupported(n, 'assignment to a sentinel name')
            for a in fdef.args.args:
                if a.arg in sentinels:
                    raise Unsupported(fdef, 'parameter named like a sentinel')
        elif sentinels:
            # module-level "argument omitted" markers (`_MISSING`) of a parameter declared `Option T`: read as None
            import copy
            self.f = fdef = copy.deepcopy(fdef)

            class _S(ast.NodeTransformer):
                def visit_Name(self, n):
                    if n.id in sentinels and isinstance(n.ctx, ast.Load):
                        return ast.copy_location(ast.Constant(value=None), n)
                    return n
            _S().visit(fdef)
            for n in ast.walk(fdef):
                if isinstance(n, ast.Name) and n.id in sentinels:
                    raise Unsupported(n, 'assignment to a sentinel name')
        self.self_attrs = dict(spec.get('self_attrs', {}))      # attr -> type text
        self.self_len = spec.get('self_len', False)
        self.guard_names = list(spec.get('guards', []))
        self.result_t = parse_type(spec['result'])
        self.R = ('List', self.result_t) if self.kind == 'generator' else self.result_t
        self.defaults = {}                      # python parameter -> default value (ast)
        self.counter = 0
        self.loops = []                         # loop defs by number (outer loops are numbered first)
        self.loop_texts = []                    # loop defs in emission order
        self.pre_conjuncts = []
        self.guard_calls = []                   # the ast.Call nodes turned into precondition conjuncts
        self.inline_checks = []                 # tests of `if <test>: raise ...` in the head, likewise
        self.vars = {}                          # python name -> type (params + locals), insertion = field order
        self.params = []                        # lean parameter list: (lean name, type), call order
        self.self_name = None
        self.item_alias = {}                    # heap mode: local -> (dict attribute, key variable): see _find_item_aliases
        self._collect_params()
        self._strip_guards()
        if self.heap:
            self._find_item_aliases()
        self._infer_types()

    # -- names ---------------------------------------------------------------------------
    @property
    def st(self):
        return self.name + '.St' + (''.join(' ' + p for p in self.tparams))

    def tbinder(self, implicit=True):
        if not self.tparams:
            return ''
        b = ('{%s : Type} ' if implicit else '(%s : Type) ') % ' '.join(self.tparams)
        if implicit:        # key types: decidable equality, and a default for locals not yet bound
            b += ''.join('[DecidableEq %s] [Inhabited %s] ' % (v, v) for v in self.deceq)
            b += ''.join('[Inhabited %s] ' % v for v in self.inhab)
            if self.heap and (self.cls or {}).get('backend'):
                # heap mode: the operations of the backend attribute are a parameter (a type-class instance)
                b += '[PyHeap.Backend %s %s %s] ' % (HEAP_TP[0], HEAP_TP[1], self.cls['backend']['type'])
            b += ''.join('[%s] ' % c for c in self.spec.get('classes', ()))     # spec `classes`: extra instance binders
        return b

    @property
    def cls_st(self):
        """Lean type of the object state record"""
        return self.cls.get('state_lean', self.cls['lean_name']) + '.St' + (
            ''.join(' ' + p for p in self.cls.get('tparams', [])))

    @property
    def RT(self):
        """Lean text of the type of a statement list: the value type, `Except PyExc` around it in raising
        mode, paired with the new object state for a method that changes it"""
        r = show_type(self.R)
        if self.raises:
            r = 'Except PyExc %s' % show_type(self.R, False)
        if self.cls_mut:
            r = '%s × %s' % ('(%s)' % r if ' × ' in r else r, self.cls_st)
        return r

    @staticmethod
    def _atom(e):
        return e if (' ' not in e and '\n' not in e) else '(%s)' % e

    def ret(self, e):
        """the statement-list value `return e` (e: Lean term of the value type, free variable `s`)"""
        if self.raises:
            e = '.ok %s' % self._atom(e)
        return '(%s, s.self)' % e if self.cls_mut else e

    def throw(self, exc):
        e = '.error %s' % exc
        return '(%s, s.self)' % e if self.cls_mut else e

    def _raise(self, exc, ctx):
        """the statement-list value of raising `exc` here: the innermost handler, else the error result"""
        if ctx.get('kexc'):
            return '%s %s s' % (ctx['kexc'], exc)
        return self.throw(exc)

    def _wrap(self, ex, text, ctx):
        """bind the partial operations hoisted out of one statement's expressions, in evaluation order"""
        for v, term in reversed(ex.hoists or []):
            text = '(match %s with\n| .error e => %s\n| .ok %s =>\n%s)' % (
                term, self._raise('e', ctx), v, indent(text))
        return text

    def fresh(self, base):
        self.counter += 1
        return '%s%d' % (base, self.counter)

    # -- parameters ----------------------------------------------------------------------
    def _collect_params(self):
        a = self.f.args
        if a.vararg or a.kwonlyargs or a.posonlyargs or (a.kwarg and 'kwargs' not in self.spec):
            raise Unsupported(self.f, 'only plain positional parameters')
        if 'kwargs' in self.spec and not a.kwarg:
            raise Unsupported(self.f, 'the spec declares **%s' % list(self.spec['kwargs'])[0])
        names = [x.arg for x in a.args]
        ptypes = self.spec['params']
        if self.spec.get('method'):
            self.self_name = names[0]
            names = names[1:]
        if list(ptypes) != names:
            raise Unsupported(self.f, 'parameter list %s differs from the spec %s' % (names, list(ptypes)))
        self.defaults = dict(zip(names[len(names) - len(a.defaults):], a.defaults)) if a.defaults else {}
        if self.cls is not None:
            self.params.append(('self', ('Obj',)))
        for n in names:
            t = parse_type(ptypes[n])
            self.vars[n] = t
            self.params.append((mangle(n), t))
        if a.kwarg:         # **kwargs: a dict parameter of the declared type (keyword names are its keys)
            (kn, kt), = self.spec['kwargs'].items()
            if kn != a.kwarg.arg:
                raise Unsupported(self.f, '**%s differs from the spec **%s' % (a.kwarg.arg, kn))
            self.vars[kn] = parse_type(kt)
            if self.vars[kn][0] != 'Dict':
                raise Unsupported(self.f, '**%s must be a Dict' % kn)
            self.params.append((mangle(kn), self.vars[kn]))
        if self.self_len:
            self.vars['self.__len__'] = INT
            self.params.append(('self_len', INT))
        for attr, tt in self.self_attrs.items():
            t = parse_type(tt)
            self.vars['self.' + attr] = t
            self.params.append(('self_' + attr, t))
        # default values are not translated: every Lean parameter is explicit

    def field(self, pyname: str) -> str:
        """record field of a Python variable: parameters keep their name (they are API), `self.<attr>`
        reads are `self_<attr>`, LOCALS are numbered `loc<k>` in the order of their first binding in the
        source text, so that renaming a local variable leaves the generated definitions unchanged"""
        if pyname == 'self.__len__':
            return 'self_len'
        if pyname.startswith('self.'):
            return 'self_' + pyname[5:]
        if pyname in self.spec['params'] or pyname in self.spec.get('kwargs', ()):
            return mangle(pyname)
        locs = [n for n in self.vars if n not in self.spec['params'] and not n.startswith('self.')
                and n not in self.spec.get('kwargs', ())]
        return 'loc%d' % (locs.index(pyname) + 1)

    def ptype(self, t):
        return self.cls_st if t == ('Obj',) else show_type(t)

    def default_of(self, t):
        return default_of(t, self.deceq + self.inhab)

    # -- guard calls -> precondition --------------------------------------------------------
    def _strip_guards(self):
        body = list(self.f.body)
        if body and isinstance(body[0], ast.Expr) and isinstance(body[0].value, ast.Constant) \
                and isinstance(body[0].value.value, str):
            body = body[1:]                      # docstring
        pnames = {n for n in self.spec['params']}
        while body:
            st = body[0]
            if (isinstance(st, ast.Assign) and len(st.targets) == 1 and isinstance(st.targets[0], ast.Name)
                    and isinstance(st.value, ast.Call) and isinstance(st.value.func, ast.Name)
                    and st.value.func.id in self.guard_names):
                tgt = st.targets[0].id
                call = st.value
                if tgt not in pnames or not call.args or not isinstance(call.args[0], ast.Name) \
                        or call.args[0].id != tgt:
                    raise Unsupported(st, 'guard call must have the form  p = guard(p, ...)  on a parameter')
                self.pre_conjuncts.append(self._guard_condition(call))
                self.guard_calls.append(call)
                body = body[1:]
            elif (self.guard_names and isinstance(st, ast.If) and not st.orelse and len(st.body) == 1
                    and isinstance(st.body[0], ast.Raise)
                    and all(n.id in pnames for n in ast.walk(st.test) if isinstance(n, ast.Name))):
                # round 3: argument validation written inline between / after the guard calls,
                # `if <condition on parameters>: raise ...`: one more conjunct of the precondition (a guard call
                # is the identity on an Int parameter, so the condition sees the values the caller passed)
                env = {n: (mangle(n), self.vars[n]) for n in pnames}
                self.pre_conjuncts.append('!decide (%s)' % ExprTr(self, env_override=env).cond(st.test))
                self.inline_checks.append(st.test)
                body = body[1:]
            else:
                break
        self.body = body
        for n in ast.walk(ast.Module(body=body, type_ignores=[])):
            if isinstance(n, ast.Call) and isinstance(n.func, ast.Name) and n.func.id in self.guard_names:
                raise Unsupported(n, 'guard call after the first ordinary statement')

    def _guard_condition(self, call: ast.Call) -> str:
        """`p = g(p, consts...)` where g is  [value = int(value)]; (if c: raise ...)*; return value.
        Returns the Lean Bool saying that no `raise` is reached."""
        g = self.module_defs.get(call.func.id)
        if g is None:
            raise Unsupported(call, 'guard function %s not found at module level' % call.func.id)
        ga = g.args
        if ga.vararg or ga.kwarg or ga.kwonlyargs or ga.posonlyargs:
            raise Unsupported(g, 'guard signature')
        gnames = [x.arg for x in ga.args]
        defaults = dict(zip(gnames[len(gnames) - len(ga.defaults):], ga.defaults))
        bind = {}
        for n, v in zip(gnames, call.args):
            bind[n] = v
        for kw in call.keywords:
            if kw.arg is None or kw.arg not in gnames or kw.arg in bind:
                raise Unsupported(call, 'guard keyword')
            bind[kw.arg] = kw.value
        for n in gnames:
            if n not in bind:
                if n not in defaults:
                    raise Unsupported(call, 'guard argument %s missing' % n)
                bind[n] = defaults[n]
        first = gnames[0]
        subject = call.args[0].id
        env = {}
        for n, v in bind.items():
            if n == first:
                env[n] = (mangle(subject), self.vars[subject])
            elif isinstance(v, ast.Constant) and isinstance(v.value, bool):
                env[n] = ('true' if v.value else 'false', BOOL)
            elif isinstance(v, ast.Constant) and isinstance(v.value, int):
                env[n] = ('(%d : Int)' % v.value, INT)
            elif isinstance(v, ast.Constant) and isinstance(v.value, str):
                env[n] = (str_lit(v.value), STR)
            else:
                raise Unsupported(v, 'guard arguments other than the subject must be constants')
        gbody = list(g.body)
        if gbody and isinstance(gbody[0], ast.Expr) and isinstance(gbody[0].value, ast.Constant):
            gbody = gbody[1:]
        conds = []
        aliases = {first}
        ex = ExprTr(self, env_override=env)
        for st in gbody[:-1]:
            if (isinstance(st, ast.Assign) and len(st.targets) == 1 and isinstance(st.targets[0], ast.Name)
                    and st.targets[0].id == first and isinstance(st.value, ast.Call)
                    and isinstance(st.value.func, ast.Name) and st.value.func.id == 'int'
                    and len(st.value.args) == 1 and isinstance(st.value.args[0], ast.Name)
                    and st.value.args[0].id == first and self.vars[subject] == INT):
                continue                         # value = int(value): the identity on Int
            if (isinstance(st, ast.Assign) and len(st.targets) == 1 and isinstance(st.targets[0], ast.Name)
                    and st.targets[0].id not in gnames and isinstance(st.value, ast.Call)
                    and isinstance(st.value.func, ast.Name) and st.value.func.id == 'int'
                    and not st.value.keywords
                    and len(st.value.args) == 1 and isinstance(st.value.args[0], ast.Name)
                    and st.value.args[0].id == first and self.vars[subject] == INT):
                # round 3b: `int_value = int(value)` - a fresh local holding the converted argument: on Int an
                # alias of the subject (usable in the conditions and as the returned name)
                env[st.targets[0].id] = env[first]
                aliases.add(st.targets[0].id)
                continue
            if (isinstance(st, ast.Assign) and len(st.targets) == 1 and isinstance(st.targets[0], ast.Tuple)
                    and isinstance(st.value, ast.Tuple) and len(st.targets[0].elts) == len(st.value.elts)
                    and self.vars[subject] == INT
                    and all(isinstance(t, ast.Name) for t in st.targets[0].elts)
                    and all((t.id == first and isinstance(v, ast.Call) and isinstance(v.func, ast.Name)
                             and v.func.id == 'int' and len(v.args) == 1 and isinstance(v.args[0], ast.Name)
                             and v.args[0].id == first)
                            or (t.id not in gnames and isinstance(v, (ast.Name, ast.Constant)))
                            for t, v in zip(st.targets[0].elts, st.value.elts))):
                # round 3: `orig, value = value, int(value)`: the identity on Int plus fresh names that only the
                # `raise` expressions can use (a fresh name in a condition is refused below: free name)
                continue
            if isinstance(st, ast.If) and not st.orelse and len(st.body) == 1 and isinstance(st.body[0], ast.Raise):
                for n in ast.walk(st.test):
                    if isinstance(n, ast.Name) and n.id not in env:
                        raise Unsupported(n, 'free name in guard condition')
                conds.append(ex.cond(st.test))
                continue
            raise Unsupported(st, 'guard body statement')
        last = gbody[-1] if gbody else None
        if not (isinstance(last, ast.Return) and isinstance(last.value, ast.Name) and last.value.id in aliases):
            raise Unsupported(g, 'guard must end with `return <first parameter>`')
        if not conds:
            return 'true'
        return ' && '.join('!decide (%s)' % c for c in conds)

    # -- type inference --------------------------------------------------------------------
    def _infer_types(self):
        over = {n: parse_type(t) for n, t in self.spec.get('locals', {}).items()}
        for n, t in over.items():
            self.vars[n] = t
        for _ in range(6):
            before = dict(self.vars)
            self._infer_block(self.body)
            if before == self.vars:
                break
        for n, t in self.vars.items():
            if not known(t):
                raise Unsupported(self.f, 'type of variable %s could not be inferred' % n)

    def _bind(self, name, t, node):
        if name.startswith('self.'):
            raise Unsupported(node, 'assignment to an attribute')
        if self.self_name is not None and name == self.self_name:
            raise Unsupported(node, 'assignment to self')
        old = self.vars.get(name)
        if old is None and name not in self.vars:
            self.vars[name] = t
        else:
            self.vars[name] = unify(old, t, node)

    def _infer_target(self, tgt, t, node):
        if isinstance(tgt, ast.Name):
            self._bind(tgt.id, t, node)
        elif isinstance(tgt, (ast.Tuple, ast.List)):
            if t is not None and t[0] == 'Prod' and len(t[1]) == len(tgt.elts):
                for e, et in zip(tgt.elts, t[1]):
                    self._infer_target(e, et, node)
            elif t is None:
                for e in tgt.elts:
                    self._infer_target(e, None, node)
            elif t == VAL and self.heap:
                for e in tgt.elts:                  # heap mode: unpacking a cell: every item is dynamically typed
                    self._infer_target(e, VAL, node)
            else:
                raise Unsupported(node, 'unpacking a non-tuple')
        else:
            raise Unsupported(tgt, 'assignment target')

    def _type_of(self, node, nn=frozenset()):
        try:
            return ExprTr(self, infer_only=True, nn=nn).expr(node)[1]
        except _Unknown:
            return None

    def _is_place(self, tgt):
        """an attribute of `self` / an item of one: assignable, nothing to infer"""
        if self.heap and isinstance(tgt, ast.Subscript):
            return True                      # heap mode: `x[i] = v` / `x[:] = [...]` write the object store
        return self.cls is not None and (self_rooted(tgt, self.self_name) or self.dict_view(
            tgt.value if isinstance(tgt, ast.Subscript) else None) is not None)

    def cls_defines(self, name) -> bool:
        """does the class body define (override) method `name`?"""
        for cname in self.cls.get('mro', [self.cls['name']]):     # `mro`: the class and its translated bases
            cdef = None
            for n in self.tree.body:
                if isinstance(n, ast.ClassDef) and n.name == cname:
                    cdef = n
            if cdef is None:
                raise Unsupported(self.f, 'class %s not found' % cname)
            if any(isinstance(n, ast.FunctionDef) and n.name == name for n in cdef.body) or any(
                    isinstance(n, ast.Assign) and any(isinstance(t, ast.Name) and t.id == name for t in n.targets)
                    for n in cdef.body):
                return True
        return False

    def dict_view(self, node):
        """`self` of a dict subclass (spec `dict_base`) / `self.<peer>`: the state attribute holding the dict
        that the object IS, and whether it is the peer object; else None"""
        if self.cls is None or node is None:
            return None
        if isinstance(node, ast.Name) and node.id == self.self_name and self.cls.get('dict_base'):
            return self.cls['dict_base'], False
        peer = self.cls.get('peer')
        if peer and isinstance(node, ast.Attribute) and isinstance(node.value, ast.Name) \
                and node.value.id == self.self_name and node.attr == peer['attr']:
            return peer['swap'][self.cls['dict_base']], True
        return None

    def view_term(self, attr):
        return 's.self.%s' % lean_field(attr)

    def _plain_dict_truth(self):
        """round 3e: is `bool(self)` the non-emptiness of the dict the object IS?  The class is defined in the module with
        the single base `dict` and defines neither `__bool__` nor `__len__`"""
        owner = self.spec['qualname'].split('.')[0]
        cdefs = [n for n in (self.tree.body if self.tree is not None else []) if isinstance(n, ast.ClassDef)
                 and n.name == owner]
        if len(cdefs) != 1:
            return False
        c = cdefs[0]
        if not (len(c.bases) == 1 and isinstance(c.bases[0], ast.Name) and c.bases[0].id == 'dict' and not c.keywords):
            return False
        for n in ast.walk(c):
            if isinstance(n, (ast.FunctionDef, ast.AsyncFunctionDef)) and n.name in ('__bool__', '__len__'):
                return False
            if isinstance(n, ast.Name) and n.id in ('__bool__', '__len__') and isinstance(n.ctx, ast.Store):
                return False
        return not any(isinstance(n, ast.Name) and n.id == 'dict' and isinstance(n.ctx, ast.Store)
                       for n in ast.walk(self.tree))

    def state_attr(self, node):
        """`self.a` / `self.p.q` (a dotted path the spec maps to a state field, `paths`) -> the state attribute, or
        None"""
        if self.cls is None or not isinstance(node, ast.Attribute):
            return None
        parts = []
        n = node
        while isinstance(n, ast.Attribute):
            parts.append(n.attr)
            n = n.value
        if not (isinstance(n, ast.Name) and n.id == self.self_name):
            return None
        path = '.'.join(reversed(parts))
        if len(parts) == 1:
            actual = self.cls.get('_actual')
            if actual:                           # round 3b: the attribute that plays a declared role
                back = {v: k for k, v in actual.items()}
                if path not in back:
                    return None
                path = back[path]
            return path if path in self.cls_state and path not in self.cls.get('virtual', ()) else None
        return self.cls.get('paths', {}).get(path)

    def _infer_block(self, stmts, nn=frozenset()):
        for st in stmts:
            if isinstance(st, ast.Assign):
                t = self._type_of(st.value, nn)
                for tgt in st.targets:
                    if not self._is_place(tgt):
                        self._infer_target(tgt, t, st)
                nn = nn - assigned_names([st])
            elif isinstance(st, ast.AugAssign):
                if self._is_place(st.target):
                    continue
                if not isinstance(st.target, ast.Name):
                    raise Unsupported(st, 'augmented assignment target')
                t = self._type_of(ast.BinOp(left=st.target, op=st.op, right=st.value), nn)
                self._bind(st.target.id, t, st)
                nn = nn - {st.target.id}
            elif isinstance(st, ast.AnnAssign):
                raise Unsupported(st)
            elif isinstance(st, ast.For):
                inner = nn - assigned_names([st])
                it = self._iter_type(st.iter, nn)
                self._infer_target(st.target, it, st)
                self._infer_block(st.body, inner)
                self._infer_block(st.orelse, inner)
                nn = inner
            elif isinstance(st, ast.If):
                try:
                    static = ExprTr(self, infer_only=True, nn=nn).static_test(st.test)
                except _Unknown:
                    static = None
                if static is not None:
                    self._infer_block(st.body if static else st.orelse, nn)
                    nn = nn - assigned_names([st])
                    continue
                t_, f_ = narrow(st.test)
                self._infer_block(st.body, nn | t_)
                self._infer_block(st.orelse, nn | f_)
                nn = flow_after_if(st, nn)
            elif isinstance(st, ast.While):
                inner = nn - assigned_names([st])
                self._infer_block(st.body, inner | narrow(st.test)[0])
                self._infer_block(st.orelse, inner)
                nn = inner
            elif isinstance(st, ast.Try):
                inner = nn - assigned_names([st])
                self._infer_block(st.body, inner)
                for h in st.handlers:
                    self._infer_block(h.body, inner)
                self._infer_block(st.orelse, inner)
                nn = inner
            elif isinstance(st, ast.Expr) and isinstance(st.value, ast.Call):
                m = self._mutation(st.value)
                if m is not None and m[0] != self.self_name:
                    var, op, arg = m
                    if op == 'append':
                        self._bind(var, ('List', self._type_of(arg, nn)), st)
                    elif op == 'extend':
                        self._bind(var, self._type_of(arg, nn), st)

    def _iter_type(self, node, nn=frozenset()):
        if isinstance(node, ast.Call) and isinstance(node.func, ast.Name) and node.func.id == 'range':
            return INT
        t = self._type_of(node, nn)
        if t is None:
            return None
        if t[0] == 'List':
            return t[1]
        if t[0] == 'Dict':                      # iterating a dict: its keys, in insertion order
            return t[1]
        if t[0] == 'Str':
            raise Unsupported(node, 'iteration over a string')
        raise Unsupported(node, 'iteration over a non-list')

    def _mutation(self, call: ast.Call):
        """`v.append(e)` / `v.pop()` on a local list variable -> (v, op, arg)"""
        if isinstance(call.func, ast.Attribute) and isinstance(call.func.value, ast.Name) \
                and call.func.attr in ('append', 'pop', 'extend') and not call.keywords:
            v = call.func.value.id
            if call.func.attr == 'extend':
                if len(call.args) == 1 and self.cls is not None and v in self.vars:
                    return v, 'extend', call.args[0]
                return None
            if call.func.attr == 'append' and len(call.args) == 1:
                return v, 'append', call.args[0]
            if call.func.attr == 'pop' and not call.args:
                return v, 'pop', None
        return None

    # -- aliasing discipline for mutated lists ---------------------------------------------------
    def _check_mutation_discipline(self):
        """A list that is mutated in place (`append`, `pop`) must be a local that is only ever assigned a
        fresh list display, never copied to another variable by a bare name, never iterated while
        mutated.  Then in-place mutation = functional update of the variable."""
        mutated = set()
        for n in ast.walk(ast.Module(body=self.body, type_ignores=[])):
            if isinstance(n, ast.Call):
                m = self._mutation(n)
                if m is not None:
                    mutated.add(m[0])
        mutated -= set(self.item_alias)          # heap mode: item aliases write the dict entry they name
        for v in mutated:
            if v in self.spec['params'] or v not in self.vars:
                raise Unsupported(self.f, 'in-place mutation of parameter / unknown %s' % v)
        for n in ast.walk(ast.Module(body=self.body, type_ignores=[])):
            if isinstance(n, ast.Assign):
                for tgt in n.targets:
                    fresh_copy = ((self.cls is not None or self.raises) and isinstance(n.value, ast.Call)
                                  and isinstance(n.value.func, ast.Name) and n.value.func.id == 'list')
                    if isinstance(tgt, ast.Name) and tgt.id in mutated and not isinstance(n.value, ast.List) \
                            and not fresh_copy:
                        raise Unsupported(n, 'mutated list %s assigned from a non-fresh value' % tgt.id)
                if isinstance(n.value, ast.Name) and n.value.id in mutated:
                    raise Unsupported(n, 'alias of mutated list %s' % n.value.id)
                if isinstance(n.value, (ast.Tuple, ast.List)):
                    for e in ast.walk(n.value):
                        if isinstance(e, ast.Name) and e.id in mutated:
                            raise Unsupported(n, 'mutated list %s stored inside another value' % e.id)
            if isinstance(n, ast.Call) and self._mutation(n) is not None and self._mutation(n)[1] == 'append':
                for e in ast.walk(self._mutation(n)[2]):
                    if isinstance(e, ast.Name) and e.id in mutated:
                        raise Unsupported(n, 'mutated list appended to a list')
            if isinstance(n, ast.Yield) and n.value is not None:
                for e in ast.walk(n.value):
                    if isinstance(e, ast.Name) and e.id in mutated:
                        raise Unsupported(n, 'mutated list yielded')
            if isinstance(n, ast.For):
                names = {e.id for e in ast.walk(n.iter) if isinstance(e, ast.Name)}
                assigned = set()
                for b in ast.walk(ast.Module(body=n.body + n.orelse, type_ignores=[])):
                    if isinstance(b, ast.Call) and self._mutation(b) is not None:
                        assigned.add(self._mutation(b)[0])
                if names & assigned:
                    raise Unsupported(n, 'loop body mutates the list being iterated')

    # -- statements (CPS) ------------------------------------------------------------------------
    def _ex(self, ctx):
        return ExprTr(self, nn=ctx.get('nn', frozenset()), hoists=[] if self.raises else None)

    def block(self, stmts, k, ctx):
        """Lean term (free variable `s`) for the statement list followed by continuation term `k`"""
        if not stmts:
            return k
        st, rest = stmts[0], stmts[1:]
        ex = self._ex(ctx)
        if isinstance(st, ast.Pass):
            return self.block(rest, k, ctx)
        if isinstance(st, ast.Expr) and isinstance(st.value, ast.Constant):
            return self.block(rest, k, ctx)                     # docstring / bare constant
        if isinstance(st, ast.Assign):
            upd = []
            if len(st.targets) != 1:
                raise Unsupported(st, 'chained assignment')
            if self.heap:
                hs = self._alias_stmt(st, rest, k, ctx, ex) if self.item_alias else None
                if hs is None:
                    hs = self._heap_stmt(st, rest, k, ctx, ex)
                if hs is not None:
                    return hs
            callee = self._method_call(st.value, ctx)
            if callee is not None and callee['mutates']:
                return self._call_stmt(callee, st.value, st.targets[0], rest, k, ctx, ex)
            tgt0 = st.targets[0]
            dv = self.dict_view(tgt0.value) if isinstance(tgt0, ast.Subscript) else None
            if dv is not None:
                return self._view_store(dv, tgt0, st.value, st, rest, k, ctx, ex)
            raw = self._raw_dict(st.value)
            if raw is not None:
                val, vt, upd = self._raw_dict_value(raw, st.value, ex)
                if val is None:
                    raise Unsupported(st, 'dict.%s returns nothing' % raw[0])
                self._bind_value(tgt0, val, vt, upd, st)
                ctx2 = self._forget(ctx, [st])
                return self._wrap(ex, self._let_update(upd) + '\n' + self.block(rest, k, ctx2), ctx)
            self._assign(st.targets[0], st.value, upd, ex, st)
            ctx2 = self._forget(ctx, [st])
            return self._wrap(ex, self._let_update(upd) + '\n' + self.block(rest, k, ctx2), ctx)
        if isinstance(st, ast.AugAssign):
            if self._is_place(st.target):
                read, t, write = self._place(st.target, ex)
                cur = read()
                if t != INT:
                    raise Unsupported(st, 'augmented assignment to a non-integer')
                r, _ = ex.expr(st.value, INT)
                e, _ = ex.arith(st.op, cur, r, st)
                return self._wrap(ex, self._let_update([write(e)]) + '\n' + self.block(rest, k, ctx), ctx)
            if not isinstance(st.target, ast.Name) or self.vars.get(st.target.id) != INT:
                raise Unsupported(st, 'augmented assignment to a non-integer (in-place list update)')
            val = ast.BinOp(left=ast.Name(id=st.target.id, ctx=ast.Load()), op=st.op, right=st.value)
            ast.copy_location(val, st)
            ast.fix_missing_locations(val)
            e, t = ex.expr(val, self.vars[st.target.id])
            return self._wrap(ex, self._let_update([(st.target.id, e)]) + '\n' + self.block(rest, k, ctx), ctx)
        if isinstance(st, ast.Delete) and len(st.targets) == 1 and isinstance(st.targets[0], ast.Subscript) \
                and self.dict_view(st.targets[0].value) is not None:
            return self._view_store(self.dict_view(st.targets[0].value), st.targets[0], None, st, rest, k, ctx, ex)
        if self.heap and isinstance(st, ast.Expr) and isinstance(st.value, ast.Call):
            hs = self._alias_stmt(st, rest, k, ctx, ex) if self.item_alias else None
            if hs is None:
                hs = self._heap_expr_stmt(st, rest, k, ctx, ex)
            if hs is not None:
                return hs
        if isinstance(st, ast.Expr) and isinstance(st.value, ast.Call) and isinstance(st.value.func, ast.Name) \
                and st.value.func.id == 'hash' and len(st.value.args) == 1 and not st.value.keywords \
                and isinstance(st.value.args[0], ast.Name) and self.cls is not None:
            ex.expr(st.value.args[0])           # `hash(x)` of a key-typed variable: the spec fixes hashable keys
            return self.block(rest, k, ctx)
        if isinstance(st, ast.Expr) and isinstance(st.value, ast.Call) and self._raw_dict(st.value) is not None:
            _, _, upd = self._raw_dict_value(self._raw_dict(st.value), st.value, ex)
            return self._wrap(ex, self._let_update(upd) + '\n' + self.block(rest, k, ctx), ctx)
        if isinstance(st, ast.Delete):
            upd = []
            for tgt in st.targets:
                if not (isinstance(tgt, ast.Subscript) and self._is_place(tgt)):
                    raise Unsupported(st, 'del of anything but an item of an attribute of self')
                read, bt, write = self._place(tgt.value, ex)
                if bt[0] != 'Dict' or len(st.targets) != 1:
                    raise Unsupported(st, 'del of a non-dict item')
                d = read()
                kx = ex.key_term(tgt.slice, bt[1])
                if self.raises:
                    upd.append(write(ex.partial('PyRt.Dict.del? %s %s' % (d, kx), st)))
                else:
                    upd.append(write('(PyRt.Dict.erase %s %s)' % (d, kx)))
            return self._wrap(ex, self._let_update(upd) + '\n' + self.block(rest, k, ctx), ctx)
        if isinstance(st, ast.Expr) and isinstance(st.value, ast.Call) and self._mutation(st.value) is not None \
                and self._mutation(st.value)[0] != self.self_name:
            var, op, arg = self._mutation(st.value)
            vt = self.vars[var]
            if vt[0] != 'List':
                raise Unsupported(st, '%s of a non-list' % op)
            if op == 'append':
                a, _ = ex.expr(arg, vt[1])
                e = 'PyRt.append s.%s %s' % (self.field(var), a)
            elif op == 'extend':
                a, at = ex.expr(arg, vt)
                e = '(s.%s ++ %s)' % (self.field(var), a)
            else:
                e = 'PyRt.popLast s.%s' % self.field(var)
            return self._wrap(ex, self._let_update([(var, e)]) + '\n' + self.block(rest, k, ctx), ctx)
        if isinstance(st, ast.Expr) and isinstance(st.value, ast.Call) and isinstance(st.value.func, ast.Attribute) \
                and st.value.func.attr in ('add', 'remove', 'discard') and self.cls is not None \
                and self_rooted(st.value.func.value, self.self_name) and not st.value.keywords \
                and len(st.value.args) == 1:
            # `<place>.add(x)` / `.remove(x)` / `.discard(x)` on a set stored in the object state
            read, pt, write = self._place(st.value.func.value, ex)
            if pt[0] != 'Set':
                raise Unsupported(st, '%s on %s' % (st.value.func.attr, pt))
            cur = read()
            a, _ = ex.expr(st.value.args[0], pt[1])
            m = st.value.func.attr
            if m == 'remove':
                if not self.raises:
                    raise Unsupported(st, 'set.remove outside the raising mode')
                new = ex.partial('PyRt.Set.remove? %s %s' % (cur, a), st)
            else:
                new = '(PyRt.Set.%s %s %s)' % (m, cur, a)
            return self._wrap(ex, self._let_update([write(new)]) + '\n' + self.block(rest, k, ctx), ctx)
        if isinstance(st, ast.Expr) and isinstance(st.value, (ast.Call, ast.Subscript)) \
                and self._method_call(st.value, ctx) is not None:
            callee = self._method_call(st.value, ctx)
            if callee['mutates']:
                return self._call_stmt(callee, st.value, None, rest, k, ctx, ex)
            ex.expr(st.value)                                   # evaluated for its exceptions only
            return self._wrap(ex, self.block(rest, k, ctx), ctx)
        if isinstance(st, ast.Expr) and self.raises and self.cls is not None \
                and isinstance(st.value, (ast.Subscript, ast.Compare, ast.BinOp, ast.Name, ast.Attribute)):
            ex.expr(st.value)                   # an expression statement: evaluated for its exceptions only
            return self._wrap(ex, self.block(rest, k, ctx), ctx)
        if isinstance(st, ast.Expr) and isinstance(st.value, ast.Yield):
            if self.kind != 'generator':
                raise Unsupported(st, 'yield in a function')
            if st.value.value is None:
                raise Unsupported(st, 'bare yield')
            y, _ = ex.expr(st.value.value, self.result_t)
            if self.raises:
                return self._wrap(ex, 'PyRt.yieldCons %s\n%s' % (
                    self._atom(y), indent(paren(self.block(rest, k, ctx)))), ctx)
            return '%s ::\n%s' % (y, indent(paren(self.block(rest, k, ctx))))
        if isinstance(st, ast.Return):
            if self.kind == 'generator':
                if st.value is not None:
                    raise Unsupported(st, 'return with a value in a generator')
                return self.ret('[]')
            if st.value is not None:
                callee = self._method_call(st.value, ctx)
                if callee is not None and callee['mutates']:
                    return self._call_stmt(callee, st.value, 'return', rest, k, ctx, ex)
                raw = self._raw_dict(st.value)
                if raw is not None:
                    val, vt, upd = self._raw_dict_value(raw, st.value, ex)
                    if val is None or vt != self.result_t:
                        raise Unsupported(st, 'result of dict.%s' % raw[0])
                    return self._wrap(ex, self._let_update(upd) + '\n' + self.ret(val), ctx)
            if self.result_t == UNIT:
                if st.value is not None and not (isinstance(st.value, ast.Constant) and st.value.value is None):
                    raise Unsupported(st, 'a value returned from a function declared to return None')
                return self.ret('()')
            if st.value is None:
                v = ast.Constant(value=None)
                ast.copy_location(v, st)
            else:
                v = st.value
            e, _ = ex.expr(v, self.result_t)
            return self._wrap(ex, self.ret(e), ctx)
        if isinstance(st, ast.Break):
            if ctx.get('kbreak') is None:
                raise Unsupported(st, 'break outside a loop')
            return ctx['kbreak']
        if isinstance(st, ast.Continue):
            if ctx.get('kcontinue') is None:
                raise Unsupported(st, 'continue outside a loop')
            return ctx['kcontinue']
        if isinstance(st, ast.If):
            static = ex.static_test(st.test)
            if static is not None:          # a kind test decided by the declared type: only the live branch
                return self.block((st.body if static else st.orelse) + rest, k, ctx)
            nn = ctx.get('nn', frozenset())
            t_, f_ = narrow(st.test)
            kk, prefix = self._share(self.block(rest, k, self._with_nn(ctx, flow_after_if(st, nn))))
            c = ex.cond(st.test)
            a = self.block(st.body, kk, self._with_nn(ctx, nn | t_))
            b = self.block(st.orelse, kk, self._with_nn(ctx, nn | f_))
            return prefix + self._wrap(ex, 'if %s then\n%s\nelse\n%s' % (c, indent(a), indent(b)), ctx)
        if isinstance(st, ast.For):
            return self._for(st, rest, k, ctx, ex)
        if isinstance(st, ast.While):
            return self._while(st, rest, k, ctx)
        if isinstance(st, ast.Try):
            return self._try(st, rest, k, ctx)
        if isinstance(st, ast.Raise) and self.raises and self.heap and st.exc is None and st.cause is None \
                and ctx.get('cur_exc'):
            return self._raise(ctx['cur_exc'], ctx)      # heap mode: bare `raise` in a handler re-raises its exception
        if isinstance(st, ast.Raise) and self.raises:
            return self._raise('PyExc.' + self._exc_class(st), ctx)
        raise Unsupported(st)

    @staticmethod
    def _with_nn(ctx, nn):
        if not nn and not ctx.get('nn'):
            return ctx
        c = dict(ctx)
        c['nn'] = frozenset(nn)
        return c

    def _forget(self, ctx, stmts):
        """the context after `stmts` assigned some variables: they are no longer known to be not-None"""
        if not ctx.get('nn'):
            return ctx
        return self._with_nn(ctx, ctx['nn'] - assigned_names(stmts))

    def _exc_class(self, st: ast.Raise) -> str:
        """`raise X` / `raise X(message)`: only the class is modelled; the message may not do anything"""
        if st.cause is not None or st.exc is None:
            raise Unsupported(st, 'raise ... from / bare re-raise')
        exc = st.exc
        args = []
        if isinstance(exc, ast.Call):
            if exc.keywords:
                raise Unsupported(st, 'exception constructor keywords')
            args, exc = exc.args, exc.func
        if not isinstance(exc, ast.Name) or exc.id not in EXC_NAMES:
            raise Unsupported(st, 'exception class outside %s' % (EXC_NAMES,))
        for a in args:
            ok = isinstance(a, (ast.Constant, ast.Name))
            if isinstance(a, ast.BinOp) and isinstance(a.op, ast.Mod) and isinstance(a.left, ast.Constant) \
                    and isinstance(a.left.value, str) and not a.left.value.replace('%r', '').replace('%s', '').count('%'):
                ok = all(isinstance(x, (ast.Name, ast.Constant, ast.Tuple, ast.Attribute, ast.Load))
                         for x in ast.walk(a.right))
            if not ok:
                raise Unsupported(st, 'exception message that could itself raise')
        return exc.id

    def _while(self, st: ast.While, rest, k, ctx):
        """while c: body [else: E]  ->  a loop definition structurally recursive on an explicit bound `lfuel`
        (one unit per test of the condition); `PyExc.OutOfFuel`, which no handler catches, when it runs out"""
        if not (self.raises and self.loop_fuel):
            raise Unsupported(st, 'while loop (the spec must declare `loop_fuel` and the raising mode)')
        if ctx.get('kbreak') is not None or ctx.get('in_loop'):
            raise Unsupported(st, 'while loop inside another loop')
        loop = '%s.loop%d' % (self.name, len(self.loops) + 1)
        self.loops.append(None)
        idx = len(self.loops) - 1
        inner = self._forget(ctx, [st])
        again = '%s k kbreak kexc n s' % loop
        body_ctx = {'kbreak': 'kbreak s', 'kcontinue': again, 'kexc': 'kexc', 'in_loop': True}
        if inner.get('nn'):
            body_ctx['nn'] = inner['nn']
        ex = self._ex(body_ctx)
        c = ex.cond(st.test)
        t_, f_ = narrow(st.test)
        body = self.block(st.body, again, self._with_nn(body_ctx, body_ctx.get('nn', frozenset()) | t_))
        step = self._wrap(ex, 'if %s then\n%s\nelse\n  k s' % (c, indent(body)), body_ctx)
        forever = isinstance(st.test, ast.Constant) and st.test.value is True
        if forever:                          # `while True:` is left only by break / return / an exception
            step = body
        R = self.RT
        text = ('def %s %s(k kbreak : %s → %s) (kexc : PyExc → %s → %s) : Nat → %s → %s\n'
                '  | 0, s => %s\n'
                '  | n + 1, s =>\n%s\n' % (
                    loop, self.tbinder(), self.st, R, self.st, R, self.st, R,
                    self.throw('PyExc.OutOfFuel'), indent(step, 4)))
        self.loops[idx] = text
        self.loop_texts.append(text)
        after = self.block(rest, k, inner)
        kb, prefix = self._share(after)
        kn, prefix2 = self._share(self.block(st.orelse, kb, inner)) if st.orelse else (kb, '')
        if forever:
            if st.orelse:
                raise Unsupported(st, 'while True ... else')
            kn = self.throw('PyExc.Other')      # never used: the loop definition does not call `k`
            if not any(isinstance(n, ast.Break) for n in ast.walk(st)):
                kb, prefix = kn, ''             # nor `kbreak`: the statements after the loop are unreachable

        def as_fun(term):
            if term.endswith(' s') and ' ' not in term[:-2] and '\n' not in term:
                return term[:-2]
            return paren('fun (s : %s) => %s' % (self.st, term))
        hx = ctx.get('kexc') or paren('fun (e : PyExc) (s : %s) => %s' % (self.st, self.throw('e')))
        return prefix + prefix2 + '%s %s %s %s lfuel s' % (loop, as_fun(kn), as_fun(kb), hx)

    def _try(self, st: ast.Try, rest, k, ctx):
        """try: A  except E1: B1 ...  [else: C]   (no finally, no `as`, exact classes of PyExc)"""
        if not self.raises:
            raise Unsupported(st, 'try outside the raising mode')
        if st.finalbody or not st.handlers:
            raise Unsupported(st, 'try ... finally')
        inner = self._forget(ctx, [st])
        after = inner
        if self.heap and terminates(st.body) and not st.orelse and len(st.handlers) == 1:
            # heap mode: the statements after the `try` are reached only by falling out of the handler
            nn = inner.get('nn', frozenset())
            for hs in st.handlers[0].body:
                nn = flow_after_if(hs, nn) if isinstance(hs, ast.If) else nn - assigned_names([hs])
            after = self._with_nn(inner, nn)
        kk, prefix = self._share(self.block(rest, k, after))
        arms = []
        for hd in st.handlers:
            if hd.name is not None or not isinstance(hd.type, ast.Name) or hd.type.id not in EXC_NAMES:
                raise Unsupported(hd, 'handler other than `except <one class of PyExc>:`')
            arms.append((hd.type.id, self.block(hd.body, kk, dict(inner, cur_exc='PyExc.' + hd.type.id))))
        text = self._raise('e', ctx)
        for name, b in reversed(arms):
            text = 'if e = PyExc.%s then\n%s\nelse\n%s' % (name, indent(b), indent(text))
        h = self.fresh('h_')
        hdef = 'let %s := fun (e : PyExc) (s : %s) =>\n%s\n' % (h, self.st, indent(text))
        body_k, prefix2 = self._share(self.block(st.orelse, kk, inner)) if st.orelse else (kk, '')
        inner_try = dict(inner)
        inner_try['kexc'] = h
        return prefix + hdef + prefix2 + self.block(st.body, body_k, inner_try)

    def _share(self, term):
        """bind a continuation term once if it is not small: returns (term to use, `let` prefix)"""
        if '\n' not in term and len(term) <= 60:
            return term, ''
        name = self.fresh('k_')
        return '%s s' % name, 'let %s := fun (s : %s) =>\n%s\n' % (name, self.st, indent(term))

    def _let_update(self, upd):
        obj = [(n[5:], e) for n, e in upd if self.cls is not None and n.startswith('self.')]
        parts = ['%s := %s' % (self.field(n), e) for n, e in upd
                 if not (self.cls is not None and n.startswith('self.'))]
        if obj:
            if len({a for a, _ in obj}) != len(obj):
                raise Unsupported(self.f, 'one statement updates an attribute twice')
            parts.insert(0, 'self := { s.self with %s }' % ', '.join(
                '%s := %s' % (lean_field(a), e) for a, e in obj))
        return 'let s : %s := { s with %s }' % (self.st, ', '.join(parts))

    # -- a dict subclass: `self` / `self.<peer>` used as the dict they are ------------------------------
    def _view_store(self, dv, tgt, value, st, rest, k, ctx, ex):
        """`X[k] = v` (value given) / `del X[k]` (value None) where X is `self` or the peer object: the class's
        own `__setitem__` / `__delitem__` when it defines one (then it must be in the spec), else the dict's"""
        attr, peer = dv
        if isinstance(tgt.slice, ast.Slice):
            raise Unsupported(st, 'slice')
        dunder = '__setitem__' if value is not None else '__delitem__'
        if self.cls_defines(dunder):
            args = [tgt.slice] + ([value] if value is not None else [])
            callee = self.callee(dunder, args, [], st, ctx.get('nn', frozenset()))
            if callee is None:
                raise Unsupported(st, '%s is overridden by the class but not in the spec' % dunder)
            return self._call_stmt(callee, st, None, rest, k, ctx, ex, peer=peer)
        t = self.cls_state[attr]
        d = self.view_term(attr)
        if value is not None:
            v, _ = ex.expr(value, t[2])
            kx, _ = ex.expr(tgt.slice, t[1])
            new = '(PyRt.Dict.set %s %s %s)' % (d, kx, v)
        else:
            kx = ex.key_term(tgt.slice, t[1])
            new = ex.partial('PyRt.Dict.del? %s %s' % (d, kx), st) if self.raises else \
                '(PyRt.Dict.erase %s %s)' % (d, kx)
        return self._wrap(ex, self._let_update([('self.' + attr, new)]) + '\n' + self.block(rest, k, ctx), ctx)

    RAW_DICT = ('__setitem__', '__delitem__', 'clear', 'pop', 'popitem')
    RAW_DICT_HEAP = ('setdefault', '__contains__', '__getitem__')       # heap mode (item aliases, membership)

    def _raw_dict(self, node):
        """`dict.<m>(X, args)` with X = `self` / the peer: the dict's own operation, bypassing the class's
        overrides -> (m, state attribute, args) or None"""
        if isinstance(node, ast.Call) and isinstance(node.func, ast.Attribute) \
                and isinstance(node.func.value, ast.Name) and node.func.value.id == 'dict' \
                and 'dict' not in self.vars and node.args and self.dict_view(node.args[0]) is not None:
            if (node.func.attr not in self.RAW_DICT and not (self.heap and node.func.attr in self.RAW_DICT_HEAP)) \
                    or node.keywords:
                raise Unsupported(node, 'dict.%s' % node.func.attr)
            return node.func.attr, self.dict_view(node.args[0])[0], node.args[1:]
        return None

    def _raw_dict_value(self, raw, node, ex):
        """-> (value term or None, its type, state updates); arguments are evaluated left to right"""
        m, attr, args = raw
        t = self.cls_state[attr]
        d = self.view_term(attr)
        if not self.raises:
            raise Unsupported(node, 'dict.%s outside the raising mode' % m)
        if m == '__setitem__' and len(args) == 2:
            kx, _ = ex.expr(args[0], t[1])
            vx, _ = ex.expr(args[1], t[2])
            return None, None, [('self.' + attr, '(PyRt.Dict.set %s %s %s)' % (d, kx, vx))]
        if m == '__delitem__' and len(args) == 1:
            kx = ex.key_term(args[0], t[1])
            return None, None, [('self.' + attr, ex.partial('PyRt.Dict.del? %s %s' % (d, kx), node))]
        if m == 'clear' and not args:
            return None, None, [('self.' + attr, '([] : %s)' % show_type(t))]
        if m == 'pop' and len(args) == 1:
            kx = ex.key_term(args[0], t[1])
            v = ex.partial('PyRt.Dict.pop? %s %s' % (d, kx), node)
            return v + '.1', t[2], [('self.' + attr, v + '.2')]
        if m == 'pop' and len(args) == 2 and self.heap:
            kx = ex.key_term(args[0], t[1])
            dx, _ = ex.expr(args[1], t[2])
            v = ex.partial('(Except.ok (PyRt.Dict.popD %s %s %s) : Except PyExc _)' % (d, kx, dx), node)   # cannot raise
            return v + '.1', t[2], [('self.' + attr, v + '.2')]
        if m == 'popitem' and not args:
            v = ex.partial('PyRt.Dict.popitem? %s' % d, node)
            return v + '.1', ('Prod', (t[1], t[2])), [('self.' + attr, v + '.2')]
        raise Unsupported(node, 'dict.%s with these arguments' % m)

    def _bind_value(self, tgt, val, vt, upd, node):
        """`x = <value>` / `a, b = <pair value>` for a value that is already a Lean term"""
        if isinstance(tgt, ast.Name):
            if self.vars.get(tgt.id) != vt:
                raise Unsupported(node, 'type of the assigned value')
            upd.append((tgt.id, val))
        elif isinstance(tgt, (ast.Tuple, ast.List)) and vt[0] == 'Prod' and len(vt[1]) == len(tgt.elts):
            for i, (e, et) in enumerate(zip(tgt.elts, vt[1])):
                self._bind_value(e, prod_proj(val, i, len(vt[1])), et, upd, node)
        else:
            raise Unsupported(node, 'assignment target')

    # -- heap mode: statements that allocate / re-fill a cell / pop an item of a dict attribute --------
    @property
    def heap_attr(self):
        return self.heap.get('field', 'heap')

    def _cell_display(self, node, ex):
        """the Lean list of `Val`s of a list display (its items are evaluated left to right and boxed)"""
        parts = []
        for e in node.elts:
            if isinstance(e, (ast.List, ast.Starred)):
                raise Unsupported(node, 'a nested list display')
            pe, pt = ex.expr(e, VAL)
            parts.append(box(pe, pt, node))
        return '([%s] : List (%s))' % (', '.join(parts), show_type(VAL))

    def _heap_stmt(self, st, rest, k, ctx, ex):
        tgt, value = st.targets[0], st.value
        h = self.view_term(self.heap_attr)
        upd = None
        if isinstance(tgt, ast.Name) and isinstance(value, ast.List) and self.vars.get(tgt.id) == VAL:
            # x = [v0, v1, ...]: a new cell; x is the reference to it
            cell = self._cell_display(value, ex)
            upd = [(tgt.id, '(PyHeap.Heap.next %s)' % h), ('self.' + self.heap_attr, '(PyHeap.Heap.alloc %s %s)' % (h, cell))]
        elif isinstance(tgt, ast.Subscript) and isinstance(tgt.slice, ast.Slice) and isinstance(value, ast.List) \
                and tgt.slice.lower is None and tgt.slice.upper is None and tgt.slice.step is None \
                and self._type_of(tgt.value, ex.nn) == VAL:
            # x[:] = [v0, v1, ...]: the cell keeps its identity and gets new contents (the temporary list of the
            # right-hand side is not allocated: it is garbage at once)
            cell = self._cell_display(value, ex)
            b, _ = ex.expr(tgt.value, VAL)
            upd = [('self.' + self.heap_attr, ex.partial('PyHeap.Heap.assign? %s %s %s' % (h, self._atom(b), cell), st))]
        elif isinstance(tgt, ast.Name) and isinstance(value, ast.Call) and isinstance(value.func, ast.Attribute) \
                and value.func.attr == 'pop' and len(value.args) == 1 and not value.keywords \
                and self.state_attr(value.func.value) is not None \
                and self.cls_state[self.state_attr(value.func.value)][0] == 'Dict':
            # x = self.<dict attribute>.pop(k)
            a = self.state_attr(value.func.value)
            dt = self.cls_state[a]
            if self.vars.get(tgt.id) != dt[2]:
                raise Unsupported(st, 'type of the popped value')
            kx = ex.key_term(value.args[0], dt[1])
            v = ex.partial('PyRt.Dict.pop? %s %s' % (self.view_term(a), kx), st)
            upd = [(tgt.id, v + '.1'), ('self.' + a, v + '.2')]
        elif isinstance(tgt, ast.Name) and self._counter_next(value) is not None:
            # x = next(self.<counter attribute>): an `itertools.count` modelled as an int incremented per call
            a = self._counter_next(value)
            if self.vars.get(tgt.id) != INT:
                raise Unsupported(st, 'type of the counter value')
            upd = [(tgt.id, self.view_term(a)), ('self.' + a, '(%s + (1 : Int))' % self.view_term(a))]
        elif isinstance(tgt, ast.Name) and self._backend_call(value) == 'pop':
            # x = self._pop_entry(self.<backend>): the backend's abstract operation
            if self.vars.get(tgt.id) != VAL:
                raise Unsupported(st, 'type of the popped entry')
            ba = self.cls['backend']['attr']
            v = ex.partial('PyHeap.Backend.pop %s %s' % (h, self.view_term(ba)), st)
            upd = [(tgt.id, v + '.1'), ('self.' + ba, v + '.2')]
        elif isinstance(tgt, (ast.Tuple, ast.List)) and all(isinstance(e, ast.Name) for e in tgt.elts) \
                and not isinstance(value, (ast.Tuple, ast.List, ast.Call)) and self._type_of(value, ex.nn) == VAL:
            # a, b, c = <cell>: `TypeError` for a non-list, `ValueError` for a wrong length; assigned left to right
            if any(self.vars.get(e.id) != VAL for e in tgt.elts):
                raise Unsupported(st, 'unpacking a cell into statically typed variables')
            b, _ = ex.expr(value, VAL)
            v = ex.partial('PyHeap.Heap.unpack? %s %s %d' % (h, self._atom(b), len(tgt.elts)), st)
            upd = []
            for i, e in enumerate(tgt.elts):
                upd = [u for u in upd if u[0] != e.id] + [(e.id, '(PyHeap.nth %s %d)' % (v, i))]
        if upd is None:
            return None
        ctx2 = self._forget(ctx, [st])
        return self._wrap(ex, self._let_update(upd) + '\n' + self.block(rest, k, ctx2), ctx)

    # -- heap mode: ITEM ALIASES -----------------------------------------------------------------------
    # A local bound ONCE by `x = self.<D>[k]`, `x = self.<D>.setdefault(k, [])`, `x = dict.setdefault(self, k, [])` or
    # `x = dict.__getitem__(self, k)` (D a declared `Dict κ (List T)`, k a variable that is never rebound) names the
    # list stored under k: every later `x` reads `D[k]` at that moment, `x.append(e)` / `x.extend(l)` / `y = x.pop()`
    # write it back.  That is what Python does as long as the entry for k is still the same list object, which holds
    # when nothing between the binding and the last use of `x` deletes or replaces entries of D (checked: no such
    # statement, no call of a method that changes D) - otherwise the function is refused.
    def _alias_binding(self, st):
        if not (isinstance(st, ast.Assign) and len(st.targets) == 1 and isinstance(st.targets[0], ast.Name)):
            return None
        v = st.value
        attr, key, form = None, None, None
        if isinstance(v, ast.Subscript) and not isinstance(v.slice, ast.Slice) and self.state_attr(v.value) is not None:
            attr, key, form = self.state_attr(v.value), v.slice, 'get'
        elif isinstance(v, ast.Call) and isinstance(v.func, ast.Attribute) and v.func.attr == 'setdefault' \
                and self.state_attr(v.func.value) is not None and len(v.args) == 2 and not v.keywords \
                and isinstance(v.args[1], ast.List) and not v.args[1].elts:
            attr, key, form = self.state_attr(v.func.value), v.args[0], 'setdefault'
        elif isinstance(v, ast.Call) and isinstance(v.func, ast.Attribute) and isinstance(v.func.value, ast.Name) \
                and v.func.value.id == 'dict' and v.args and self.dict_view(v.args[0]) is not None \
                and not self.dict_view(v.args[0])[1] and not v.keywords:
            if v.func.attr == 'setdefault' and len(v.args) == 3 and isinstance(v.args[2], ast.List) and not v.args[2].elts:
                attr, key, form = self.dict_view(v.args[0])[0], v.args[1], 'setdefault'
            elif v.func.attr == '__getitem__' and len(v.args) == 2:
                attr, key, form = self.dict_view(v.args[0])[0], v.args[1], 'get'
        if attr is None or not isinstance(key, ast.Name):
            return None
        t = self.cls_state[attr]
        if t[0] != 'Dict' or t[2][0] != 'List':
            return None
        return st.targets[0].id, attr, key.id, form

    def _attr_touched(self, node, attr, seen=()):
        """could executing `node` delete / replace an entry of the dict attribute `attr` (or rebind it)?"""
        base = self.cls.get('dict_base')
        for n in ast.walk(node):
            tg = []
            if isinstance(n, ast.Assign):
                tg = n.targets
            elif isinstance(n, (ast.AugAssign, ast.AnnAssign)):
                tg = [n.target]
            elif isinstance(n, ast.Delete):
                tg = n.targets
            for t in tg:
                for e in (t.elts if isinstance(t, (ast.Tuple, ast.List)) else [t]):
                    r = e
                    while isinstance(r, ast.Subscript):
                        r = r.value
                    if self.state_attr(r) == attr if isinstance(r, ast.Attribute) else \
                            (isinstance(r, ast.Name) and r.id == self.self_name and attr == base and e is not r):
                        return True
            if isinstance(n, ast.Call) and isinstance(n.func, ast.Attribute):
                f = n.func
                if isinstance(f.value, ast.Attribute) and self.state_attr(f.value) == attr \
                        and f.attr in ('pop', 'clear', 'popitem', 'update', '__setitem__', '__delitem__'):
                    return True
                if isinstance(f.value, ast.Name) and f.value.id == 'dict' and attr == base \
                        and f.attr in ('pop', 'clear', 'popitem', 'update', '__setitem__', '__delitem__'):
                    return True
                if isinstance(f.value, ast.Name) and f.value.id == self.self_name:
                    for sp in method_specs(self.cls, f.attr):
                        if sp['lean_name'] in seen:
                            continue
                        callee = _find_function(self.tree, sp['qualname'])
                        sub = FnTranslator.__new__(FnTranslator)
                        sub.cls, sub.tree, sub.self_name = self.cls, self.tree, callee.args.args[0].arg
                        sub.cls_state = self.cls_state
                        if sub._attr_touched_raw(callee, attr, seen + (sp['lean_name'],)):
                            return True
                    if not method_specs(self.cls, f.attr):
                        return True              # an untranslated method: unknown
        return False

    def _attr_touched_raw(self, fdef, attr, seen):
        """the same for a callee's ORIGINAL source (before its pre-pass): `super()` counts as the dict the object is,
        local aliases of the attribute count as the attribute"""
        base = self.cls.get('dict_base')
        names = {n.targets[0].id for n in ast.walk(fdef) if isinstance(n, ast.Assign) and len(n.targets) == 1
                 and isinstance(n.targets[0], ast.Name) and isinstance(n.value, ast.Attribute)
                 and isinstance(n.value.value, ast.Name) and n.value.value.id == self.self_name and n.value.attr == attr}
        for n in ast.walk(fdef):
            if isinstance(n, ast.Call) and isinstance(n.func, ast.Attribute):
                f = n.func
                root = f.value
                is_super = (isinstance(root, ast.Call) and isinstance(root.func, ast.Name) and root.func.id == 'super') \
                    or (isinstance(root, ast.Name) and root.id not in (self.self_name,) and any(
                        isinstance(m, ast.Assign) and isinstance(m.value, ast.Call) and isinstance(m.value.func, ast.Name)
                        and m.value.func.id == 'super' and any(isinstance(t, ast.Name) and t.id == root.id for t in m.targets)
                        for m in ast.walk(fdef)))
                if is_super and attr == base and f.attr in ('pop', 'clear', 'popitem', 'update', '__setitem__', '__delitem__'):
                    return True
                if isinstance(root, ast.Name) and root.id in names and f.attr in ('pop', 'clear', 'popitem', 'update'):
                    return True
        return self._attr_touched(fdef, attr, seen)

    def _find_item_aliases(self):
        stores = {}
        for n in ast.walk(self.f):
            if isinstance(n, ast.Name) and isinstance(n.ctx, (ast.Store, ast.Del)):
                stores[n.id] = stores.get(n.id, 0) + 1

        def pos(n):
            return (n.lineno, n.col_offset)
        body = ast.Module(body=self.body, type_ignores=[])
        for st in ast.walk(body):
            b = self._alias_binding(st)
            if b is None:
                continue
            x, attr, key, form = b
            if stores.get(x) != 1 or x in self.spec['params'] or stores.get(key, 0) > (0 if key in self.spec['params'] else 1):
                # round 3e (additive): a key variable that is assigned more often is still stable behind the alias when
                # every one of its stores is textually BEFORE the binding and the binding is not inside a loop
                kst = [n for n in ast.walk(body) if isinstance(n, ast.Name) and n.id == key
                       and isinstance(n.ctx, (ast.Store, ast.Del))]
                looped = any(isinstance(lp, (ast.While, ast.For)) and any(m is st for m in ast.walk(lp))
                             for lp in ast.walk(body))
                if stores.get(x) != 1 or x in self.spec['params'] or looped or any(pos(n) >= pos(st) for n in kst):
                    continue
            uses = [n for n in ast.walk(body) if isinstance(n, ast.Name) and n.id == x and isinstance(n.ctx, ast.Load)]
            if any(pos(n) <= pos(st) for n in uses):
                raise Unsupported(st, 'item alias %s used before / in its binding' % x)
            end = max([pos(n) for n in uses], default=pos(st))
            for lp in ast.walk(body):          # a use inside a loop: the whole loop is in the region
                if isinstance(lp, (ast.While, ast.For)) and any(n in list(ast.walk(lp)) for n in uses):
                    end = max(end, (lp.end_lineno, lp.end_col_offset))
            # every use must be one of: x.append(e) / x.extend(l) / x.pop() / x[i] / truthiness (a bare read)
            for other in ast.walk(body):
                if other is st:
                    continue
                if isinstance(other, (ast.stmt,)) and pos(st) < pos(other) <= end and not isinstance(
                        other, (ast.If, ast.While, ast.For, ast.Try)):
                    probe = other
                    # the statement's own write through the alias is fine; anything else touching the dict is not
                    if self._attr_touched(probe, attr):
                        raise Unsupported(other, 'the dict entry behind the item alias %s may be replaced here' % x)
            self.item_alias[x] = (attr, key, form)
        return

    def _alias_read(self, name, ex, node):
        """the list an item alias names, read NOW: `D[k]`"""
        attr, key, _ = self.item_alias[name]
        t = self.cls_state[attr]
        kx, _ = ex.expr(ast.copy_location(ast.Name(id=key, ctx=ast.Load()), node), t[1])
        return ex.partial('PyRt.Dict.get? %s %s' % (self.view_term(attr), kx), node), t[2], kx

    def _alias_stmt(self, st, rest, k, ctx, ex):
        """statements about item aliases: the binding itself, `x.append(e)`, `x.extend(l)`, `y = x.pop()`"""
        upd = None
        if isinstance(st, ast.Assign) and self._alias_binding(st) is not None \
                and self._alias_binding(st)[0] in self.item_alias:
            x, attr, key, form = self._alias_binding(st)
            t = self.cls_state[attr]
            kx, _ = ex.expr(ast.copy_location(ast.Name(id=key, ctx=ast.Load()), st), t[1])
            d = self.view_term(attr)
            if form == 'get':
                ex.partial('PyRt.Dict.get? %s %s' % (d, kx), st)          # evaluated for its KeyError
                upd = []
            else:
                upd = [('self.' + attr, '(PyRt.Dict.setdefault %s %s ([] : %s)).2' % (d, kx, show_type(t[2])))]
        call = st.value if isinstance(st, (ast.Expr, ast.Assign)) and isinstance(st.value, ast.Call) else None
        if upd is None and call is not None and isinstance(call.func, ast.Attribute) \
                and isinstance(call.func.value, ast.Name) and call.func.value.id in self.item_alias \
                and not call.keywords:
            x = call.func.value.id
            attr = self.item_alias[x][0]
            t = self.cls_state[attr]
            m = call.func.attr
            if isinstance(st, ast.Expr) and m in ('append', 'extend') and len(call.args) == 1:
                a, _ = ex.expr(call.args[0], t[2][1] if m == 'append' else t[2])
                cur, _, kx = self._alias_read(x, ex, st)
                new = 'PyRt.append %s %s' % (cur, self._atom(a)) if m == 'append' else '%s ++ %s' % (cur, self._atom(a))
                upd = [('self.' + attr, '(PyRt.Dict.set %s %s (%s))' % (self.view_term(attr), kx, new))]
            elif isinstance(st, ast.Assign) and m == 'pop' and not call.args and isinstance(st.targets[0], ast.Name):
                y = st.targets[0].id
                if self.vars.get(y) != t[2][1]:
                    raise Unsupported(st, 'type of the popped item')
                cur, _, kx = self._alias_read(x, ex, st)
                v = ex.partial('PyRt.popLast? %s' % cur, st)
                upd = [(y, v + '.1'), ('self.' + attr, '(PyRt.Dict.set %s %s %s.2)' % (self.view_term(attr), kx, v))]
            else:
                raise Unsupported(st, 'this use of the item alias %s' % x)
        if upd is None:
            return None
        ctx2 = self._forget(ctx, [st]) if isinstance(st, ast.Assign) else ctx
        head = (self._let_update(upd) + '\n') if upd else ''
        return self._wrap(ex, head + self.block(rest, k, ctx2), ctx)

    def _counter_next(self, node):
        """`next(self.<a>)` with `<a>` declared `Counter` -> the attribute, else None"""
        if isinstance(node, ast.Call) and isinstance(node.func, ast.Name) and node.func.id == 'next' \
                and len(node.args) == 1 and not node.keywords and 'next' not in self.vars and self.cls is not None:
            a = self.state_attr(node.args[0])
            if a is not None and self.cls_state[a] == ('Counter',):
                return a
        return None

    def _backend_call(self, node):
        """`self.<push>(self.<backend>, x)` / `self.<pop>(self.<backend>)` of the spec's abstract backend -> 'push' |
        'pop' | None"""
        bk = (self.cls or {}).get('backend')
        if not (bk and isinstance(node, ast.Call) and isinstance(node.func, ast.Attribute) and not node.keywords
                and isinstance(node.func.value, ast.Name) and node.func.value.id == self.self_name
                and node.args and self.state_attr(node.args[0]) == bk['attr']):
            return None
        if node.func.attr == bk['push'] and len(node.args) == 2:
            return 'push'
        if node.func.attr == bk['pop'] and len(node.args) == 1:
            return 'pop'
        return None

    def _heap_expr_stmt(self, st, rest, k, ctx, ex):
        """expression statements of heap mode: the backend's push / pop"""
        kind = self._backend_call(st.value)
        call = st.value
        if kind is None and isinstance(call.func, ast.Attribute) and call.func.attr == 'clear' and not call.args \
                and not call.keywords and self.state_attr(call.func.value) is not None \
                and self.cls_state[self.state_attr(call.func.value)][0] == 'Dict':
            a = self.state_attr(call.func.value)                 # self.<dict attribute>.clear()
            upd = [('self.' + a, '([] : %s)' % show_type(self.cls_state[a]))]
            return self._wrap(ex, self._let_update(upd) + '\n' + self.block(rest, k, ctx), ctx)
        if kind is None:
            return None
        ba = self.cls['backend']['attr']
        h = self.view_term(self.heap_attr)
        if kind == 'push':
            e, _ = ex.expr(st.value.args[1], VAL)
            v = ex.partial('PyHeap.Backend.push %s %s %s' % (h, self.view_term(ba), self._atom(e)), st)
            upd = [('self.' + ba, v)]
        else:
            v = ex.partial('PyHeap.Backend.pop %s %s' % (h, self.view_term(ba)), st)
            upd = [('self.' + ba, v + '.2')]
        return self._wrap(ex, self._let_update(upd) + '\n' + self.block(rest, k, ctx), ctx)

    # -- places: attributes of self and items of them ---------------------------------------------
    def _place(self, node, ex):
        """an assignable place rooted at an attribute of `self` -> (read, type, write):
        `read()` = Lean term of its current value (may hoist a partial lookup), `write(new)` = the update
        (root variable, new root value) storing `new` there.  Sub-expressions are evaluated on the way."""
        if isinstance(node, ast.Attribute):
            attr = self.state_attr(node)
            if attr is None:
                raise Unsupported(node, 'attribute %s is not declared in the spec' % node.attr)
            term = 's.self.%s' % lean_field(attr)
            return (lambda: term), self.cls_state[attr], (lambda new: ('self.' + attr, new))
        if isinstance(node, ast.Subscript):
            bread, bt, bwrite = self._place(node.value, ex)
            base = bread()
            if bt[0] == 'Dict':
                kx, _ = ex.expr(node.slice, bt[1])
                if not self.raises:
                    raise Unsupported(node, 'dict item outside the raising mode')
                return ((lambda: ex.partial('PyRt.Dict.get? %s %s' % (base, kx), node)), bt[2],
                        (lambda new: bwrite('(PyRt.Dict.set %s %s %s)' % (base, kx, new))))
            if bt[0] == 'Prod':
                i = ex.const_index(node.slice, len(bt[1]))
                n = len(bt[1])

                def write(new, i=i, n=n):
                    comps = [new if j == i else prod_proj(base, j, n) for j in range(n)]
                    return bwrite('(' + ', '.join(comps) + ')')
                return (lambda: prod_proj(base, i, n)), bt[1][i], write
            raise Unsupported(node, 'item assignment on %s' % (bt,))
        raise Unsupported(node, 'assignment target')

    def _place_type(self, node):
        if isinstance(node, ast.Attribute):
            attr = self.state_attr(node)
            if attr is None:
                raise Unsupported(node, 'attribute %s is not declared in the spec' % node.attr)
            return self.cls_state[attr]
        bt = self._place_type(node.value)
        if bt[0] == 'Dict':
            return bt[2]
        if bt[0] == 'Prod':
            return bt[1][ExprTr(self).const_index(node.slice, len(bt[1]))]
        raise Unsupported(node, 'item assignment on %s' % (bt,))

    def _root_attr(self, node):
        while not (isinstance(node, ast.Attribute) and self.state_attr(node) is not None):
            if not isinstance(node, (ast.Attribute, ast.Subscript)):
                raise Unsupported(node, 'assignment target')
            node = node.value
        return self.state_attr(node)

    @staticmethod
    def _scalar(t):
        return t[0] in ('Int', 'Bool', 'Str', 'Var', 'Unit', 'Val', 'Fun', 'Sentinel') or (
            t[0] == 'Option' and FnTranslator._scalar(t[1]))

    def _alias_check(self, value, tgt_attr, t, node):
        """value semantics is only right when no two live references to one mutable object exist: in a
        method that changes the object state, a non-scalar value computed from attribute `g` may only be
        stored back into `g` itself (the old container dies in the same statement)"""
        if self.cls is None or not self.cls_mut or self._scalar(t):
            return
        # (spec `ext`: the extension module prunes sub-expressions whose value is a NEW container of scalars)
        for n in (importlib.import_module(self.ext).alias_nodes(self, value) if self.ext else ast.walk(value)):
            a = self.state_attr(n) if isinstance(n, ast.Attribute) else None
            if a is not None and not self._scalar(self.cls_state[a]) and a != tgt_attr:
                raise Unsupported(node, 'possible alias of the mutable attribute %s' % a)

    def _assign(self, tgt, value, upd, ex, node):
        if isinstance(tgt, ast.Name):
            if tgt.id not in self.vars or tgt.id.startswith('self.'):
                raise Unsupported(node, 'assignment target')
            self._alias_check(value, None, self.vars[tgt.id], node)
            e, _ = ex.expr(value, self.vars[tgt.id])
            if any(n == tgt.id for n, _ in upd):
                raise Unsupported(node, 'variable assigned twice in one tuple assignment')
            upd.append((tgt.id, e))
        elif self.heap and isinstance(tgt, ast.Subscript) and not isinstance(tgt.slice, ast.Slice) \
                and self._type_of(tgt.value, ex.nn) == VAL:
            # heap mode: `x[i] = v` on a dynamically typed `x`: the right-hand side, then `x`, then `i`, then the store
            v, vt = ex.expr(value)
            v = box(v, vt, node)
            b, _ = ex.expr(tgt.value, VAL)
            i, _ = ex.expr(tgt.slice, INT)
            upd.append(('self.' + self.heap_attr, ex.partial(
                'PyHeap.Heap.set? %s %s %s %s' % (self.view_term(self.heap_attr), self._atom(b), self._atom(i),
                                                 self._atom(v)), node)))
        elif self._is_place(tgt):
            t = self._place_type(tgt)
            self._alias_check(value, self._root_attr(tgt), t, node)
            e, _ = ex.expr(value, t)                        # Python evaluates the right-hand side first
            read, _, write = self._place(tgt, ex)
            upd.append(write(e))
        elif isinstance(tgt, (ast.Tuple, ast.List)):
            if isinstance(value, (ast.Tuple, ast.List)) and len(value.elts) == len(tgt.elts):
                for t1, v1 in zip(tgt.elts, value.elts):
                    self._assign(t1, v1, upd, ex, node)      # all right-hand sides read the OLD state
            elif isinstance(value, ast.Name) and self.cls is not None and self.cls.get('clsprep') \
                    and (self.vars.get(value.id) or ('?',))[0] == 'Prod' \
                    and len(self.vars[value.id][1]) == len(tgt.elts) \
                    and all(isinstance(t1, ast.Name) and t1.id != value.id for t1 in tgt.elts):
                # round 3b: unpacking a variable of a declared product type (`count, delta = entry`)
                n = len(tgt.elts)
                base = ex.expr(value)[0]
                for i, t1 in enumerate(tgt.elts):
                    if self.vars.get(t1.id) != self.vars[value.id][1][i] or any(x == t1.id for x, _ in upd):
                        raise Unsupported(node, 'unpacking target')
                    upd.append((t1.id, prod_proj(base, i, n)))
            else:
                raise Unsupported(node, 'tuple assignment from a non-display')
        else:
            raise Unsupported(node, 'assignment target')

    # -- calls of translated methods of the same object ------------------------------------------------
    def _method_call(self, node, ctx=None):
        """`self.m(args)` / `self[k]` where `m` is a translated method -> callee description, else None"""
        if self.cls is None:
            return None
        nn = (ctx or {}).get('nn', frozenset())
        if isinstance(node, ast.Call) and isinstance(node.func, ast.Attribute) \
                and isinstance(node.func.value, ast.Name) and node.func.value.id == self.self_name:
            return self.callee(node.func.attr, node.args, node.keywords, node, nn)
        if isinstance(node, ast.Call) and isinstance(node.func, ast.Attribute) and self.cls.get('helpers') \
                and self.dict_view(node.func.value) is not None and self.dict_view(node.func.value)[1]:
            # round 3b: `self.<peer>.m(args)`: the method on the record seen from the other side
            c = self.callee(node.func.attr, node.args, node.keywords, node, nn)
            if c is not None:
                c['peer'] = True
            return c
        if isinstance(node, ast.Subscript) and isinstance(node.value, ast.Name) and node.value.id == self.self_name \
                and isinstance(node.ctx, ast.Load) and not isinstance(node.slice, ast.Slice):
            return self.callee('__getitem__', [node.slice], [], node, nn)
        return None

    def callee(self, pyname, args, keywords, node, nn=frozenset()):
        """pick the translated variant of method `pyname` whose declared parameter types fit the arguments"""
        cands = method_specs(self.cls, pyname)
        if not cands and self.cls.get('helpers') and self.tree is not None:
            h = self._helper_spec(pyname, args, keywords, node, nn)
            cands = [h] if h is not None else []
        elif cands and all(sp.get('helper') for sp in cands):
            h = self._helper_spec(pyname, args, keywords, node, nn)       # another argument-type variant
            if h is not None and h not in cands:
                cands = cands + [h]
        if not cands:
            return None
        why = ''
        for sp in cands:
            fdef = _find_function(self.tree, sp['qualname'])
            names = [a.arg for a in fdef.args.args][1:]
            if list(sp['params']) != names or len(args) > len(names):
                why = 'signature'
                continue
            defaults = dict(zip(names[len(names) - len(fdef.args.defaults):], fdef.args.defaults)) \
                if fdef.args.defaults else {}
            bound = dict(zip(names, args))
            extra = []                      # keyword arguments that go into **kwargs: not supported in calls
            bad = False
            for kw in keywords:
                if kw.arg is None or kw.arg in bound:
                    bad = True
                elif kw.arg in names:
                    bound[kw.arg] = kw.value
                else:
                    extra.append(kw)
            if bad or extra:
                why = 'keywords'
                continue
            actual = []
            try:
                for n in names:
                    pt = parse_type(sp['params'][n])
                    a = bound.get(n, defaults.get(n))
                    if a is None:
                        raise Unsupported(node, 'argument %s missing' % n)
                    if n not in bound and not isinstance(a, ast.Constant):
                        # a default is evaluated ONCE, at definition time: only immutable constants are the
                        # same value at every call (sentinel names are read as None by the callee's own spec)
                        if isinstance(a, ast.Name) and a.id in self.cls.get('sentinels', ()):
                            a = ast.copy_location(ast.Constant(value=None), a)
                        else:
                            raise Unsupported(node, 'default value of %s is not a constant' % n)
                    ExprTr(self, infer_only=True, nn=nn).expr(a, pt)
                    actual.append((a, pt))
            except (Unsupported, _Unknown) as e:
                why = str(e)
                continue
            if self.emitted is not None and sp['lean_name'] not in self.emitted and sp['lean_name'] != self.name:
                raise Unsupported(node, 'method %s is not translated (before this one)' % sp['lean_name'])
            res = parse_type(sp['result'])
            return {'spec': sp, 'lean_name': sp['lean_name'], 'args': actual,
                    'kwargs': parse_type(list(sp['kwargs'].values())[0]) if 'kwargs' in sp else None,
                    'raises': bool(sp.get('raises')), 'fuel': bool(sp.get('fuel')),
                    'mutates': method_mutates(self.cls, fdef, self.tree),
                    'result': ('List', res) if sp['kind'] == 'generator' else res}
        raise Unsupported(node, 'no translated variant of %s fits the arguments (%s)' % (pyname, why))

    def _helper_spec(self, pyname, args, keywords, node, nn):
        """round 3b: a method of the class that the spec does not list, called through `self.`: synthesize its spec
        (parameter types = the types of the arguments at this call, result type inferred from its `return` /
        `yield` expressions), translate it now and queue its text in front of the caller's.  None when the class
        does not define such a plain method."""
        import py2lean_clsprep
        fdef = py2lean_clsprep.plain_method(self.tree, self.cls['name'], pyname)
        if fdef is None:
            return None
        a = fdef.args
        names = [x.arg for x in a.args][1:]
        if a.vararg or a.kwarg or a.kwonlyargs or a.posonlyargs or keywords or len(args) > len(names):
            raise Unsupported(node, 'helper method %s: only plain positional parameters' % pyname)
        defaults = dict(zip(names[len(names) - len(a.defaults):], a.defaults)) if a.defaults else {}
        ptypes = {}
        for i, n in enumerate(names):
            arg = args[i] if i < len(args) else defaults.get(n)
            if arg is None:
                raise Unsupported(node, 'helper method %s: argument %s missing' % (pyname, n))
            t = ExprTr(self, infer_only=True, nn=nn).expr(arg)[1]
            if not known(t):
                raise _Unknown()
            ptypes[n] = spec_type(t)
        helpers = self.cls.setdefault('_helpers', {})
        key = (pyname, tuple(ptypes.values()))
        if key in helpers:
            if not isinstance(helpers[key], dict):
                raise Unsupported(node, 'helper method %s: %s' % (pyname, helpers[key]))
            return helpers[key]
        helpers[key] = 'recursive helper method'
        try:
            base = self.cls['lean_name'] + '.h_' + (pyname.strip('_') or 'm')
            lean_name, i = base, 1
            taken = {sp['lean_name'] for sp in self.cls.get('methods', [])} | \
                {sp['lean_name'] for sp in helpers.values() if isinstance(sp, dict)}
            while lean_name in taken:
                i += 1
                lean_name = '%s%d' % (base, i)
            is_gen = any(isinstance(n, (ast.Yield, ast.YieldFrom)) for n in ast.walk(fdef))
            sp = {'module': self.spec.get('module'), 'cls': self.cls, 'method': True, 'py': pyname,
                  'qualname': '%s.%s' % (self.cls['name'], pyname), 'lean_name': lean_name, 'params': ptypes,
                  'kind': 'generator' if is_gen else 'function', 'raises': True, 'result': 'None',
                  'tie_theorem': None, 'helper': True}
            fdef._module_tree = self.tree
            # result type: from the `return <value>` / `yield <value>` expressions, typed in the helper's own scope
            vals = [n.value for n in ast.walk(fdef) if isinstance(n, (ast.Return, ast.Yield)) and n.value is not None
                    and not (isinstance(n.value, ast.Constant) and n.value.value is None)]
            if vals:
                probe = FnTranslator(fdef, dict(sp, kind='function'), self.module_defs, self.tree, self.emitted)
                opt = frozenset(v for v, t in probe.vars.items() if t is not None and t[0] == 'Option')
                rt = None
                pvals = [n.value for n in ast.walk(probe.f) if isinstance(n, (ast.Return, ast.Yield))
                         and n.value is not None and not (isinstance(n.value, ast.Constant) and n.value.value is None)]
                for v in pvals:
                    rt = unify(rt, probe._type_of(v, opt), v)
                if not known(rt):
                    raise Unsupported(fdef, 'helper method %s: result type not inferred' % pyname)
                sp['result'] = spec_type(rt)
            tr = FnTranslator(fdef, sp, self.module_defs, self.tree, self.emitted)
            import re
            # helper definitions unfold under `simp`: the tie proofs cannot name them
            text = re.sub(r'(?m)^def ', '@[simp] def ', tr.emit())
            self.cls.setdefault('_helper_texts', []).append((lean_name, text))
            if self.emitted is not None:
                self.emitted.add(lean_name)
            helpers[key] = sp
            return sp
        except (Unsupported, _Unknown) as e:
            if isinstance(e, _Unknown):
                del helpers[key]
                raise
            helpers[key] = str(e)
            raise Unsupported(node, 'helper method %s: %s' % (pyname, e))

    def call_app(self, callee, ex, node, ctx=None, peer=False):
        """Lean application of a translated method to `s.self` (the peer object: to the swapped state) and the
        (translated) arguments"""
        peer = peer or bool(callee.get('peer'))
        if callee['raises'] and not self.raises:
            raise Unsupported(node, 'call of a raising method outside the raising mode')
        if callee['lean_name'] == self.name and not (self.fuel and callee['fuel']):
            raise Unsupported(node, 'a recursive method must be declared with `fuel` in the spec')
        if callee['fuel']:
            if not self.fuel:
                raise Unsupported(node, 'call of a recursive method from a method without `fuel`')
            if ctx is not None and ctx.get('in_loop'):
                raise Unsupported(node, 'recursive call inside a loop')
        parts = [callee['lean_name']]
        if callee['fuel']:
            parts.append('fuel')
        if callee['spec'].get('loop_fuel'):
            if not self.loop_fuel:
                raise Unsupported(node, 'call of a method with `while` loops from one without `loop_fuel`')
            parts.append('lfuel')
        parts.append('(%s.St.swap s.self)' % self.cls['lean_name'] if peer else 's.self')
        for a, pt in callee['args']:
            parts.append(self._atom(ex.expr(a, pt)[0]))
        if callee['kwargs'] is not None:
            parts.append('([] : %s)' % show_type(callee['kwargs']))
        return ' '.join(parts)

    def _call_stmt(self, callee, node, tgt, rest, k, ctx, ex, peer=False):
        """statement-level call of a state-changing method: `self.m(..)`, `x = self.m(..)`, `return self.m(..)`"""
        peer = peer or bool(callee.get('peer'))
        app = self.call_app(callee, ex, node, ctx, peer)
        r = self.fresh('r')

        def after(val, st1):
            upd = 'self := %s' % (('(%s.St.swap %s)' % (self.cls['lean_name'], st1)) if peer else st1)
            if tgt == 'return':
                if callee['result'] != self.result_t:
                    raise Unsupported(node, 'result type of the called method')
                return 'let s : %s := { s with %s }\n%s' % (self.st, upd, self.ret(val))
            ctx2 = ctx
            if tgt is not None:
                if not isinstance(tgt, ast.Name) or self.vars.get(tgt.id) != callee['result']:
                    raise Unsupported(node, 'target of a method call result')
                upd += ', %s := %s' % (self.field(tgt.id), val)
                ctx2 = self._forget(ctx, [ast.Assign(targets=[tgt], value=node)])
            return 'let s : %s := { s with %s }\n%s' % (self.st, upd, self.block(rest, k, ctx2))
        if callee['raises']:
            need = tgt is not None
            st1x = ('(%s.St.swap st1)' % self.cls['lean_name']) if peer else 'st1'
            text = ('(match %s with\n| (.error e, st1) =>\n  let s : %s := { s with self := %s }\n  %s\n'
                    '| (.ok %s, st1) =>\n%s)' % (app, self.st, st1x, self._raise('e', ctx), r if need else '_',
                                                 indent(after(r, 'st1'))))
        else:
            text = 'let %s := %s\n%s' % (r, app, after(r + '.1', r + '.2'))
        return self._wrap(ex, text, ctx)

    def _for(self, st: ast.For, rest, k, ctx, ex):
        # element list, evaluated once in the state before the loop
        if isinstance(st.iter, ast.Call) and isinstance(st.iter.func, ast.Name) and st.iter.func.id == 'range':
            args = st.iter.args
            if st.iter.keywords or not 1 <= len(args) <= 3:
                raise Unsupported(st.iter, 'range arguments')
            es = [ex.expr(a, INT)[0] for a in args]
            if len(es) == 1:
                es = ['(0 : Int)', es[0], '(1 : Int)']
            elif len(es) == 2:
                es = [es[0], es[1], '(1 : Int)']
            items = 'PyRt.range %s %s %s' % tuple(es)
            et = INT
        else:
            items, lt = ex.consumed(st.iter)
            if lt[0] == 'Dict':
                items, lt = 'PyRt.Dict.keys %s' % items, ('List', lt[1])
            if lt[0] == 'Set':
                raise Unsupported(st.iter, 'iteration over a set (its order is unspecified in Python)')
            if lt[0] != 'List':
                raise Unsupported(st.iter, 'iteration over a non-list')
            et = lt[1]
        if self.cls is not None and self.cls_mut:
            # the items are a snapshot taken before the loop: right only if the body cannot change them
            for n in ast.walk(st.iter):
                if isinstance(n, ast.Name) and n.id == self.self_name:
                    probe = ast.FunctionDef(name='_', args=self.f.args, body=st.body + st.orelse,
                                            decorator_list=[], lineno=st.lineno, col_offset=0)
                    if method_mutates(self.cls, probe, self.tree):
                        raise Unsupported(st, 'loop over object state that the body changes')
        # pattern for the loop variable(s)
        binds = []

        def pat(tgt, t):
            if isinstance(tgt, ast.Name):
                nm = 'x%d' % (len(binds) + 1)
                binds.append((tgt.id, nm))
                return nm
            if isinstance(tgt, (ast.Tuple, ast.List)) and t[0] == 'Prod' and len(t[1]) == len(tgt.elts):
                return '(' + ', '.join(pat(e, tt) for e, tt in zip(tgt.elts, t[1])) + ')'
            raise Unsupported(st, 'loop target')
        p = pat(st.target, et)
        loop = '%s.loop%d' % (self.name, len(self.loops) + 1)
        self.loops.append(None)                  # reserve the number (outer loops are numbered first)
        idx = len(self.loops) - 1
        kx = ' kexc' if self.raises else ''
        again = '%s k kbreak%s xs s' % (loop, kx)
        inner = self._forget(ctx, [st])
        body_ctx = {'kbreak': 'kbreak s', 'kcontinue': again}
        if self.raises:
            body_ctx['kexc'] = 'kexc'
        if self.fuel:
            body_ctx['in_loop'] = True
        if inner.get('nn'):
            body_ctx['nn'] = inner['nn']
        body = self.block(st.body, again, body_ctx)
        R = self.RT
        kexc_b = '(kexc : PyExc → %s → %s) ' % (self.st, R) if self.raises else ''
        text = ('def %s %s(k kbreak : %s → %s) %s: List %s → %s → %s\n'
                '  | [], s => k s\n'
                '  | %s :: xs, s =>\n%s\n%s\n' % (
                    loop, self.tbinder(), self.st, R, kexc_b, show_type(et, False), self.st, R, p,
                    indent(self._let_update([(n, v) for n, v in binds]), 4), indent(body, 4)))
        self.loops[idx] = text
        self.loop_texts.append(text)             # inner loops are completed (and emitted) before outer ones
        # continuations: normal exit runs the `else:` clause, `break` skips it
        after = self.block(rest, k, inner)
        kb, prefix = self._share(after)
        if st.orelse:
            kn_term = self.block(st.orelse, kb, inner)
        else:
            kn_term = kb
        kn, prefix2 = self._share(kn_term) if st.orelse else (kb, '')

        def as_fun(term):
            if term.endswith(' s') and ' ' not in term[:-2] and '\n' not in term:
                return term[:-2]                # `k_3 s` -> `k_3`
            return paren('fun (s : %s) => %s' % (self.st, term))
        hx = ''
        if self.raises:
            hx = ' ' + (ctx.get('kexc') or paren('fun (e : PyExc) (s : %s) => %s' % (self.st, self.throw('e'))))
        return prefix + prefix2 + self._wrap(
            ex, '%s %s %s%s %s s' % (loop, as_fun(kn), as_fun(kb), hx, paren(items)), ctx)

    # -- whole function ------------------------------------------------------------------------
    BUILTINS = ('len', 'min', 'max', 'int', 'list', 'tuple', 'bool', 'range')
    BUILTINS2 = ('sum', 'sorted', 'enumerate', 'dict', 'set', 'callable', 'getattr', 'isinstance', 'hash')

    def emit(self):
        self._check_mutation_discipline()
        for n in self.vars:
            if n in self.BUILTINS or (n in self.BUILTINS2 and (self.cls is not None or self.raises)):
                raise Unsupported(self.f, 'variable %s shadows a builtin the translator interprets' % n)
        for n in ast.walk(self.f):
            if isinstance(n, (ast.Global, ast.Nonlocal)):
                raise Unsupported(n)
        end = '[]' if self.kind == 'generator' else '⊥END⊥'
        if self.kind == 'generator' and self.raises:
            end = self.ret('[]')
        body = self.block(self.body, end, {})
        if '⊥END⊥' in body:
            if self.R[0] == 'Option':
                body = body.replace('⊥END⊥', self.ret('none'))
            elif self.R == UNIT:
                body = body.replace('⊥END⊥', self.ret('()'))
            else:
                raise Unsupported(self.f, 'the function can fall off its end (implicit `return None`)')
        R = self.RT
        out = []
        fields = [(self.field(n), t) for n, t in self.vars.items()]
        out.append('/-- all Python variables of `%s` -/' % self.spec['qualname'])
        out.append('structure %s.St %swhere' % (self.name, self.tbinder(False)))
        if self.cls is not None:
            out.append('  self : %s' % self.cls_st)
        for (py, _), (n, t) in zip(self.vars.items(), fields):
            out.append('  %s : %s%s' % (n, show_type(t), '' if n == py else '    -- ' + py))
        out.append('')
        for text in self.loop_texts:
            out.append(text)
        plist = ' '.join('(%s : %s)' % (n, self.ptype(t)) for n, t in self.params)
        if self.loop_fuel:
            plist = '(lfuel : Nat) ' + plist
        pnames = {n for n, _ in self.params}
        inits = ['self := self'] if self.cls is not None else []
        for n, t in fields:
            inits.append('%s := %s' % (n, n if n in pnames else self.default_of(t)))
        if self.fuel and self.loop_fuel:
            raise Unsupported(self.f, '`fuel` and `loop_fuel` together')
        if self.fuel:
            # a (mutually) recursive method: `fuel` = remaining call depth, RecursionError when it runs out
            over = '(.error PyExc.RecursionError, self)' if self.cls_mut else '.error PyExc.RecursionError'
            if not self.raises:
                raise Unsupported(self.f, 'a recursive method must be in the raising mode')
            out.append('def %s %s(fuel : Nat) %s : %s :=\n  match fuel with\n  | 0 => %s\n  | fuel + 1 =>\n'
                       '    let s : %s := { %s }\n%s\n' % (
                           self.name, self.tbinder(), plist, R, over, self.st, ', '.join(inits), indent(body, 4)))
            return '\n'.join(out)
        lf = '(lfuel : Nat) ' if self.loop_fuel else ''
        out.append('def %s.body %s%s(s : %s) : %s :=\n%s\n' % (
            self.name, self.tbinder(), lf, self.st, R, indent(body)))
        out.append('def %s %s%s : %s :=\n  %s.body %s{ %s }\n' % (
            self.name, self.tbinder(), plist, R, self.name, 'lfuel ' if self.loop_fuel else '', ', '.join(inits)))
        if self.cls is not None:
            return '\n'.join(out)
        pre = ' && '.join('(%s)' % c for c in self.pre_conjuncts) if self.pre_conjuncts else 'true'
        out.append('/-- no guard call of `%s` raises -/' % self.spec['qualname'])
        out.append('def %s_pre %s%s : Bool :=\n  %s\n' % (self.name, self.tbinder(), plist, pre))
        return '\n'.join(out)



class _Unknown(Exception):
    """type not known yet (during inference)"""


class ExprTr:
    """expressions: `expr(node, expected) -> (lean term, type)`, `cond(node) -> lean Prop`"""

    def __init__(self, fn: FnTranslator, env_override=None, infer_only=False, nn=frozenset(), hoists=None):
        self.fn = fn
        self.env = env_override
        self.infer_only = infer_only
        self.nn = frozenset(nn)             # variables known not to be None here (flow analysis)
        self.hoists = hoists                # raising mode: partial operations of this statement, in order
        self.no_hoist = 0                   # > 0: inside a conditionally evaluated sub-expression
        self.local = {}                     # comprehension / lambda variables -> (term, type)
        self.bound = 0
        self.consume_node = None            # the expression a consumer (sorted/list/sum/for) is about to exhaust

    def consumed(self, node, expected=None):
        """translate the argument of something that exhausts an iterable on the spot"""
        saved, self.consume_node = self.consume_node, node
        try:
            return self.expr(node, expected)
        finally:
            self.consume_node = saved

    # variables -------------------------------------------------------------------------------
    def var(self, name, node):
        if name in self.local:
            return self.local[name]
        if self.env is None and name in self.fn.item_alias:
            if self.infer_only:
                return 'r0', self.fn.cls_state[self.fn.item_alias[name][0]][2]
            e, t, _ = self.fn._alias_read(name, self, node)      # heap mode: an item alias reads the dict entry NOW
            return e, t
        if name in self.fn.sentinels and self.env is None and name not in self.fn.vars:
            return 'PyHeap.Val.sentinel', SENTINEL       # heap mode: coerced to `none` of an Option where one is expected
        if self.env is not None:
            if name not in self.env:
                raise Unsupported(node, 'free name %s' % name)
            return self.env[name]
        if name not in self.fn.vars:
            raise Unsupported(node, 'unknown name %s' % name)
        t = self.fn.vars[name]
        if t is None:
            raise _Unknown()
        if name in self.nn and t[0] == 'Option':
            if not known(t):
                raise _Unknown()
            return '(PyRt.unwrap s.%s)' % self.fn.field(name), t[1]
        return 's.' + self.fn.field(name), t

    def view(self, dv, dunder, node):
        """`self` / the peer object used as the dict it is, in an operation the class does not override"""
        attr, peer = dv
        if self.fn.cls_defines(dunder):
            raise Unsupported(node, '%s is overridden by the class%s' % (
                dunder, ' (peer object)' if peer else ''))
        return self.fn.view_term(attr), self.fn.cls_state[attr]

    def key_term(self, node, kt):
        """the key of a dict LOOKUP / DELETION: heap mode allows a dynamically typed value there (a non-key is a
        KeyError, a cell a TypeError: `PyHeap.Val.asKey?`)"""
        if self.fn.heap and self.env is None:
            e, t = self.expr(node)
            if t == VAL:
                if kt != ('Var', HEAP_TP[0]):
                    raise Unsupported(node, 'a dynamically typed key for a dict with keys %s' % (kt,))
                return self.partial('PyHeap.Val.asKey? %s' % FnTranslator._atom(e), node)
            return self.coerce(e, t, kt, node)[0]
        return self.expr(node, kt)[0]

    def partial(self, term, node):
        """a partial operation of the raising mode: bound once, before the statement, in evaluation order"""
        if self.infer_only:
            return 'v0'
        if self.hoists is None or self.no_hoist:
            raise Unsupported(node, 'an operation that can raise inside a conditionally evaluated expression')
        self.fn.hcount += 1
        v = 'v%d' % self.fn.hcount
        self.hoists.append((v, term))
        return v

    def fresh_bound(self):
        self.bound += 1
        return 'c%d' % self.bound

    def const_index(self, node, n):
        if isinstance(node, ast.Constant) and isinstance(node.value, int) and not isinstance(node.value, bool) \
                and -n <= node.value < n:
            return node.value % n
        raise Unsupported(node, 'index of a fixed-length tuple must be a constant in range')

    def static_test(self, node):
        """kind tests decided by the declared static type: `callable(getattr(x, 'items'|'keys', None))`,
        `isinstance(x, dict)`; True / False / None (not a kind test)"""
        if isinstance(node, ast.UnaryOp) and isinstance(node.op, ast.Not):
            r = self.static_test(node.operand)
            return None if r is None else (not r)
        if isinstance(node, ast.Compare) and len(node.ops) == 1 and isinstance(node.ops[0], (ast.Is, ast.IsNot)) \
                and self.fn.heap and self.env is None:
            # heap mode: `E is self` for an argument of a declared container type: arguments do not alias the object
            a, b = node.left, node.comparators[0]
            for x, y in ((a, b), (b, a)):
                if isinstance(x, ast.Name) and x.id == self.fn.self_name and isinstance(y, ast.Name) \
                        and y.id in self.fn.spec['params']:
                    t = self.expr(y)[1]
                    if t[0] in ('Dict', 'List', 'Set', 'Prod', 'Int', 'Bool', 'Str'):
                        return isinstance(node.ops[0], ast.IsNot)
        if isinstance(node, ast.Compare) and len(node.ops) == 1 and isinstance(node.ops[0], (ast.Is, ast.IsNot, ast.Eq)) \
                and self.fn.cls is not None:
            def type_of(n):
                return n.args[0] if (isinstance(n, ast.Call) and isinstance(n.func, ast.Name) and n.func.id == 'type'
                                     and len(n.args) == 1 and not n.keywords) else None
            l, r = type_of(node.left), type_of(node.comparators[0])
            if l is not None and r is not None:
                # `type(x) is type(self)`: an argument of a declared container / scalar type is not this class
                if isinstance(r, ast.Name) and r.id == self.fn.self_name and not (
                        isinstance(l, ast.Name) and l.id == self.fn.self_name):
                    t = self.expr(l)[1]
                    if t[0] in ('Dict', 'List', 'Set', 'Prod', 'Int', 'Bool', 'Str'):
                        return isinstance(node.ops[0], ast.IsNot)
                raise Unsupported(node, 'type(...) comparison')
        if not (isinstance(node, ast.Call) and isinstance(node.func, ast.Name) and not node.keywords):
            return None
        if node.func.id == 'callable' and len(node.args) == 1:
            g = node.args[0]
            if isinstance(g, ast.Call) and isinstance(g.func, ast.Name) and g.func.id == 'getattr' \
                    and len(g.args) == 3 and isinstance(g.args[1], ast.Constant) \
                    and g.args[1].value in ('items', 'keys', 'values') \
                    and isinstance(g.args[2], ast.Constant) and g.args[2].value is None:
                t = self.expr(g.args[0])[1]
                if t[0] == 'Dict':
                    return True
                if t[0] in ('List', 'Str', 'Int', 'Bool'):
                    return False
                raise Unsupported(node, 'kind test on %s' % (t,))
            raise Unsupported(node, 'callable(...)')
        if node.func.id == 'isinstance' and len(node.args) == 2 and isinstance(node.args[1], ast.Name) \
                and node.args[1].id in ('dict', 'list', 'tuple'):
            t = self.expr(node.args[0])[1]
            if t[0] == 'Option':
                raise Unsupported(node, 'kind test on a value that may be None')
            if t[0] in ('Dict', 'List', 'Prod', 'Int', 'Bool', 'Str'):
                return {'dict': t[0] == 'Dict', 'list': t[0] == 'List', 'tuple': t[0] == 'Prod'}[node.args[1].id]
            raise Unsupported(node, 'kind test on %s' % (t,))
        return None

    def coerce(self, e, t, expected, node):
        if expected is None or t == expected:
            return e, t
        if expected == VAL and t is not None and boxable(t):
            return box(e, t, node), VAL                      # heap mode: a statically typed value stored dynamically
        if t == SENTINEL:
            if expected[0] == 'Option' and known(expected):
                return '(none : %s)' % show_type(expected), expected
            if self.infer_only:
                return e, unify(t, expected, node)
            raise Unsupported(node, 'a sentinel where %s is expected' % (expected,))
        if not known(t):
            t2 = unify(t, expected, node)
            if t2 == expected:
                return e, expected
        if expected[0] == 'Option' and t[0] != 'Option':
            e2, _ = self.coerce(e, t, expected[1], node)
            return '(some %s)' % e2, expected
        if self.infer_only:
            return e, unify(t, expected, node)
        raise Unsupported(node, 'expected %s, found %s' % (expected, t))

    def expr(self, node, expected=None):
        e, t = self._expr(node, expected)
        return self.coerce(e, t, expected, node)

    def _expr(self, node, expected):
        if expected is not None and expected[0] == 'Option' and expected[1] is not None \
                and isinstance(node, (ast.List, ast.Dict, ast.ListComp, ast.DictComp)) and self.fn.raises:
            expected = expected[1]          # a display where a value that may be None is expected
        if isinstance(node, ast.Constant):
            v = node.value
            if v is None and expected == VAL:
                return 'PyHeap.Val.none', VAL
            if v is None:
                t = expected if expected is not None and expected[0] == 'Option' else ('Option', None)
                if not known(t) and not self.infer_only:
                    raise Unsupported(node, 'None of unknown type')
                return ('(none : %s)' % show_type(t)) if known(t) else 'none', t
            if isinstance(v, bool):
                return ('true' if v else 'false'), BOOL
            if isinstance(v, int):
                return '(%d : Int)' % v, INT
            if isinstance(v, str):
                return str_lit(v), STR
            raise Unsupported(node, 'constant of type %s' % type(v).__name__)
        if isinstance(node, ast.Name):
            return self.var(node.id, node)
        if isinstance(node, ast.Attribute):
            if isinstance(node.value, ast.Name) and node.value.id == self.fn.self_name and self.env is None \
                    and node.attr in self.fn.self_attrs:
                return self.var('self.' + node.attr, node)
            if self.env is None and self.fn.self_name not in self.local and self.fn.state_attr(node) is not None:
                a = self.fn.state_attr(node)
                return 's.self.%s' % lean_field(a), self.fn.cls_state[a]
            raise Unsupported(node, 'attribute access')
        if isinstance(node, ast.Tuple):
            if expected is not None and expected[0] == 'Prod' and len(expected[1]) == len(node.elts):
                parts = [self.expr(e, et) for e, et in zip(node.elts, expected[1])]
            else:
                parts = [self.expr(e) for e in node.elts]
            if len(parts) < 2:
                raise Unsupported(node, 'tuple of length < 2')
            return '(' + ', '.join(p[0] for p in parts) + ')', ('Prod', tuple(p[1] for p in parts))
        if isinstance(node, ast.List) and expected is not None and expected[0] == 'Prod' \
                and len(expected[1]) == len(node.elts) >= 2 and self.fn.cls is not None:
            # a fixed-length list declared as a product in the spec (`[count, delta]`)
            parts = [self.expr(e, et) for e, et in zip(node.elts, expected[1])]
            return '(' + ', '.join(p[0] for p in parts) + ')', ('Prod', tuple(p[1] for p in parts))
        if isinstance(node, ast.List) and self.fn.heap and self.env is None \
                and (expected is None or expected == VAL):
            # heap mode: a list display is a new cell of the object store (translated at statement level only)
            if self.infer_only:
                return 'r0', VAL
            raise Unsupported(node, 'a list display (an allocation) inside an expression')
        if isinstance(node, ast.List):
            et = expected[1] if expected is not None and expected[0] == 'List' else None
            if expected is not None and expected[0] == 'Str':
                raise Unsupported(node, 'list display where a string is expected')
            parts = []
            for e in node.elts:
                pe, pt = self.expr(e, et)
                et = unify(et, pt, node)
                parts.append(pe)
            t = ('List', et)
            if not parts:
                if known(t):
                    return '([] : %s)' % show_type(t), t
                if self.infer_only:
                    return '[]', t
                raise Unsupported(node, 'empty list of unknown element type')
            return '[' + ', '.join(parts) + ']', t
        if isinstance(node, ast.BinOp):
            return self._binop(node)
        if isinstance(node, ast.UnaryOp):
            if isinstance(node.op, ast.USub):
                e, t = self.expr(node.operand, INT)
                return '(-%s)' % e, INT
            if isinstance(node.op, ast.UAdd):
                return self.expr(node.operand, INT)
            if isinstance(node.op, ast.Not):
                return 'decide (%s)' % self.cond(node), BOOL
            raise Unsupported(node)
        if isinstance(node, ast.Compare):
            return 'decide (%s)' % self.cond(node), BOOL
        if isinstance(node, ast.BoolOp):
            # value context: only when every operand is a Bool (then `and`/`or` return Bools)
            self.no_hoist += 1
            try:
                for v in node.values:
                    if self.expr(v)[1] != BOOL:
                        raise Unsupported(node, '`and`/`or` used for its operand value')
            finally:
                self.no_hoist -= 1
            return 'decide (%s)' % self.cond(node), BOOL
        if isinstance(node, (ast.ListComp, ast.DictComp, ast.GeneratorExp)):
            return self._comprehension(node, expected)
        if isinstance(node, ast.Dict) and not node.keys:
            t = expected if expected is not None and expected[0] == 'Dict' else ('Dict', None, None)
            if known(t):
                return '([] : %s)' % show_type(t), t
            if self.infer_only:
                return '[]', t
            raise Unsupported(node, 'empty dict of unknown type')
        if isinstance(node, ast.IfExp):
            self.no_hoist += 1
            try:
                a, ta = self.expr(node.body, expected)
                b, tb = self.expr(node.orelse, expected)
            finally:
                self.no_hoist -= 1
            t = unify(ta, tb, node)
            a, _ = self.coerce(a, ta, t, node)
            b, _ = self.coerce(b, tb, t, node)
            return '(if %s then %s else %s)' % (self.cond(node.test), a, b), t
        if isinstance(node, ast.Call):
            return self._call(node, expected)
        if isinstance(node, ast.Subscript) and self.env is None and self.fn.heap and (self.fn.cls or {}).get('backend') \
                and self.fn.state_attr(node.value) == self.fn.cls['backend']['attr']:
            # heap mode: `self.<backend>[0]`: the backend's abstract `front` (IndexError when it is empty)
            if not (isinstance(node.slice, ast.Constant) and node.slice.value == 0 and type(node.slice.value) is int):
                raise Unsupported(node, 'only item 0 of the backend can be read')
            return self.partial('PyHeap.Backend.front %s' % self.fn.view_term(self.fn.cls['backend']['attr']), node), VAL
        if isinstance(node, ast.Subscript):
            callee = self.fn._method_call(node, {'nn': self.nn}) if self.env is None else None
            if callee is not None:
                return self._method_value(callee, node)
            dv = self.fn.dict_view(node.value) if self.env is None else None
            if dv is not None:
                base, bt = self.view(dv, '__getitem__', node)
            else:
                base, bt = self.expr(node.value)
            if bt[0] == 'Prod' and not isinstance(node.slice, ast.Slice):
                i = self.const_index(node.slice, len(bt[1]))
                if bt[1][i] is None:
                    raise _Unknown()
                return prod_proj(base, i, len(bt[1])), bt[1][i]
            if bt == VAL:
                # heap mode: `x[i]` on a dynamically typed `x`: a read of the object store
                if isinstance(node.slice, ast.Slice) or not self.fn.heap:
                    raise Unsupported(node, 'slice of a cell')
                i, _ = self.expr(node.slice, INT)
                return self.partial('PyHeap.Heap.get? %s %s %s' % (
                    self.fn.view_term(self.fn.heap_attr), FnTranslator._atom(base), FnTranslator._atom(i)), node), VAL
            if bt[0] == 'Dict' and not isinstance(node.slice, ast.Slice):
                kx = self.key_term(node.slice, bt[1])
                if not self.fn.raises:
                    raise Unsupported(node, 'dict item outside the raising mode')
                if bt[2] is None:
                    raise _Unknown()
                return self.partial('PyRt.Dict.get? %s %s' % (base, kx), node), bt[2]
            if bt[0] not in ('List', 'Str'):
                raise Unsupported(node, 'subscript of a non-sequence')
            if isinstance(node.slice, ast.Slice):
                sl = node.slice
                if sl.step is not None:
                    raise Unsupported(node, 'slice step')
                lo = '(some %s)' % self.expr(sl.lower, INT)[0] if sl.lower is not None else 'none'
                hi = '(some %s)' % self.expr(sl.upper, INT)[0] if sl.upper is not None else 'none'
                return '(PyRt.slice %s %s %s)' % (base, lo, hi), bt
            if bt[0] == 'Str':
                raise Unsupported(node, 'string indexing')
            i, _ = self.expr(node.slice, INT)
            if not known(bt):
                raise _Unknown()
            if self.fn.raises:
                return self.partial('PyRt.index? %s %s' % (base, i), node), bt[1]
            if bt[1][0] == 'Var' and bt[1][1] not in self.fn.deceq:
                raise Unsupported(node, 'indexing a list of abstract items')
            return '(PyRt.index %s %s)' % (base, i), bt[1]
        raise Unsupported(node)

    def _binop(self, node):
        op = node.op
        l, lt = self.expr(node.left)
        r, rt = self.expr(node.right)
        if lt == INT and rt == INT:
            return self.arith(op, l, r, node)
        if lt[0] == 'List' and rt[0] == 'List' and isinstance(op, ast.Add):
            return '(%s ++ %s)' % (l, r), unify(lt, rt, node)
        raise Unsupported(node, 'operator on %s, %s' % (lt, rt))

    def arith(self, op, l, r, node):
        if isinstance(op, ast.Add):
            return '(%s + %s)' % (l, r), INT
        if isinstance(op, ast.Sub):
            return '(%s - %s)' % (l, r), INT
        if isinstance(op, ast.Mult):
            return '(%s * %s)' % (l, r), INT
        if isinstance(op, ast.FloorDiv):
            if self.fn.raises:
                return self.partial('PyRt.floordiv? %s %s' % (l, r), node), INT
            return '(PyRt.floordiv %s %s)' % (l, r), INT
        if isinstance(op, ast.Mod):
            if self.fn.raises:
                return self.partial('PyRt.mod? %s %s' % (l, r), node), INT
            return '(PyRt.mod %s %s)' % (l, r), INT
        raise Unsupported(node, 'integer operator')

    # -- comprehensions ------------------------------------------------------------------------------
    def _comprehension(self, node, expected):
        """[e for pat in it if c ...] / {k: v for ...} / a generator expression consumed at once:
        `(it.filter (fun pat => c)).map (fun pat => e)`; one `for` clause; the variables are bound by the
        lambda (a comprehension has its own scope); nothing inside may raise"""
        if len(node.generators) != 1 or node.generators[0].is_async:
            raise Unsupported(node, 'comprehension with several for clauses')
        g = node.generators[0]
        items, lt = self.consumed(g.iter)
        if lt[0] == 'Dict':
            items, lt = '(PyRt.Dict.keys %s)' % items, ('List', lt[1])
        if lt[0] != 'List':
            raise Unsupported(node, 'comprehension over a non-list')
        if not known(lt):
            raise _Unknown()
        saved = dict(self.local)
        names = []

        def pat(tgt, t):
            if isinstance(tgt, ast.Name):
                if tgt.id in self.fn.vars or tgt.id == self.fn.self_name:
                    raise Unsupported(node, 'comprehension variable %s shadows a variable' % tgt.id)
                nm = self.fresh_bound()
                self.local[tgt.id] = (nm, t)
                names.append(tgt.id)
                return nm
            if isinstance(tgt, (ast.Tuple, ast.List)) and t[0] == 'Prod' and len(t[1]) == len(tgt.elts):
                return '(' + ', '.join(pat(e, tt) for e, tt in zip(tgt.elts, t[1])) + ')'
            raise Unsupported(node, 'comprehension target')
        self.no_hoist += 1
        try:
            p = pat(g.target, lt[1])
            if len(set(names)) != len(names):
                raise Unsupported(node, 'comprehension binds a name twice')
            src = items
            for c in g.ifs:
                src = '(%s.filter (fun %s => decide %s))' % (src, p, self.cond(c))
            if isinstance(node, ast.DictComp):
                et = expected if expected is not None and expected[0] == 'Dict' else ('Dict', None, None)
                kx, kt = self.expr(node.key, et[1])
                vx, vt = self.expr(node.value, et[2])
                if not has_deceq(kt, self.fn.deceq):
                    raise Unsupported(node, 'dict keys without decidable equality')
                return '(PyRt.Dict.ofPairs (%s.map (fun %s => (%s, %s))))' % (src, p, kx, vx), ('Dict', kt, vt)
            et = expected[1] if expected is not None and expected[0] == 'List' else None
            e, t = self.expr(node.elt, et)
            return '(%s.map (fun %s => %s))' % (src, p, e), ('List', t)
        finally:
            self.no_hoist -= 1
            self.local = saved

    def _method_value(self, callee, node):
        """value of a call of a translated method that does not change the object state"""
        if self.infer_only:
            return 'r0', callee['result']
        if callee['mutates']:
            raise Unsupported(node, 'a state-changing method call inside an expression')
        if callee['spec']['kind'] == 'generator' and node is not self.consume_node:
            # a generator object is a one-shot iterator: as a list it may only be consumed on the spot
            raise Unsupported(node, 'a generator object that is not consumed at once (sorted/list/sum/for)')
        app = self.fn.call_app(callee, self, node)
        if callee['raises']:
            return self.partial(app, node), callee['result']
        return '(%s)' % app, callee['result']

    def _dict_method(self, node, base, bt, expected):
        """reading methods of a dict value"""
        m, a = node.func.attr, node.args
        if m == 'items' and not a:
            return '(PyRt.Dict.items %s)' % base, ('List', ('Prod', (bt[1], bt[2])))
        if m == 'keys' and not a:
            return '(PyRt.Dict.keys %s)' % base, ('List', bt[1])
        if m == 'values' and not a:
            return '(PyRt.Dict.values %s)' % base, ('List', bt[2])
        if m == 'get' and len(a) == 2:
            kx, _ = self.expr(a[0], bt[1])
            dx, _ = self.expr(a[1], bt[2])
            return '(PyRt.Dict.getD %s %s %s)' % (base, kx, dx), bt[2]
        if m == 'get' and len(a) == 1 and self.fn.cls is not None and self.fn.cls.get('clsprep') \
                and bt[2] is not None and bt[2][0] != 'Option':
            # round 3b: `d.get(k)`: the value or None (values of the declared type are never None)
            kx, _ = self.expr(a[0], bt[1])
            return '(PyRt.Dict.find %s %s)' % (base, kx), ('Option', bt[2])
        if m == '__len__' and not a:
            return '(PyRt.Dict.len %s)' % base, INT
        if m == 'pop' and len(a) == 1 and self.fn.heap and self.infer_only:
            return 'r0', bt[2]                  # heap mode: `x = self.<dict>.pop(k)`, translated at statement level
        if m == 'setdefault' and len(a) == 2 and self.fn.heap and self.infer_only:
            return 'r0', bt[2]                  # heap mode: an item-alias binding
        raise Unsupported(node, 'dict method %s' % m)

    def _call(self, node: ast.Call, expected):
        fn = self.fn
        if fn.ext and isinstance(node.func, ast.Name) and node.func.id.startswith('%'):
            return importlib.import_module(fn.ext).translate_op(self, node, expected)    # spec-declared operation
        if self.env is None and fn.heap and self.infer_only and isinstance(node.func, ast.Attribute) \
                and isinstance(node.func.value, ast.Name) and node.func.value.id in fn.item_alias \
                and node.func.attr == 'pop' and not node.args:
            return 'r0', fn.cls_state[fn.item_alias[node.func.value.id][0]][2][1]
        if self.env is None and fn.heap and (fn._counter_next(node) is not None or fn._backend_call(node)):
            # heap mode: `next(self.<counter>)` / the backend's pop: translated at statement level only
            if not self.infer_only:
                raise Unsupported(node, 'a call that changes the object state inside an expression')
            if fn._counter_next(node) is not None:
                return 'r0', INT
            return 'r0', (VAL if fn._backend_call(node) == 'pop' else UNIT)
        if self.env is None and fn.cls is not None and fn._raw_dict(node) is not None:
            m, attr, _ = fn._raw_dict(node)
            t = fn.cls_state[attr]
            if m == '__contains__' and len(node.args) == 2 and fn.heap:
                kx = self.key_term(node.args[1], t[1]) if not self.infer_only else 'k0'
                return '(PyRt.Dict.contains %s %s)' % (fn.view_term(attr), kx), BOOL
            if not self.infer_only:
                raise Unsupported(node, 'dict.%s(...) of the object inside an expression' % m)
            if m in ('setdefault', '__getitem__') and fn.heap and self.infer_only:
                return 'r0', t[2]
            if m == 'pop':
                return 'r0', t[2]
            if m == 'popitem':
                return 'r0', ('Prod', (t[1], t[2]))
            return 'r0', UNIT
        if isinstance(node.func, ast.Attribute) and self.env is None and fn.heap \
                and fn.state_attr(node.func) is not None:
            # heap mode: `self.<a>(x)` where the attribute holds a callable (or None): what it does is a parameter
            a = fn.state_attr(node.func)
            t = fn.cls_state[a]
            ft = t[1] if t[0] == 'Option' else t
            if ft is not None and ft[0] == 'Fun' and len(node.args) == 1 and not node.keywords:
                x, _ = self.expr(node.args[0], ft[1])
                f = 's.self.%s' % lean_field(a)
                if t[0] != 'Option':
                    f = '(some %s)' % f
                return self.partial('PyHeap.callOpt? %s %s' % (f, FnTranslator._atom(x)), node), ft[2]
        if isinstance(node.func, ast.Attribute) and self.env is None:
            callee = fn._method_call(node, {'nn': self.nn})
            if callee is not None:
                return self._method_value(callee, node)
            if not node.keywords and not (isinstance(node.func.value, ast.Name)
                                          and node.func.value.id == fn.self_name):
                base, bt = self.expr(node.func.value)
                if bt[0] == 'Dict':
                    if not known(bt):
                        raise _Unknown()
                    return self._dict_method(node, base, bt, expected)
        if isinstance(node.func, ast.Name) and node.func.id == 'sorted' and len(node.args) == 1 \
                and (fn.cls is not None or fn.raises):
            return self._sorted(node, expected)
        if node.keywords:
            raise Unsupported(node, 'keyword arguments')
        if isinstance(node.func, ast.Name) and (fn.cls is not None or fn.raises):
            f, a = node.func.id, node.args
            if f == 'sum' and len(a) == 1:
                e, t = self.consumed(a[0])
                if t == ('List', INT):
                    return '(PyRt.sum %s)' % e, INT
                if t[0] == 'Prod' and all(x == INT for x in t[1]):      # a fixed-length list of ints
                    n = len(t[1])
                    return '(' + ' + '.join(['(0 : Int)'] + [prod_proj(e, i, n) for i in range(n)]) + ')', INT
                raise Unsupported(node, 'sum of %s' % (t,))
            if f == 'len' and len(a) == 1 and not (isinstance(a[0], ast.Name) and a[0].id == fn.self_name):
                e, t = self.expr(a[0])
                if t[0] == 'Dict':
                    return '(PyRt.Dict.len %s)' % e, INT
                if t[0] == 'Set':
                    return '(PyRt.Set.len %s)' % e, INT
            if f in ('set', 'frozenset') and len(a) == 0:
                t = expected if expected is not None and expected[0] == 'Set' else ('Set', None)
                if known(t):
                    return '(PyRt.Set.empty : %s)' % show_type(t), t
                if self.infer_only:
                    return 'PyRt.Set.empty', t
                raise Unsupported(node, 'empty set of unknown element type')
            if f in ('set', 'frozenset') and len(a) == 1:
                e, t = self.expr(a[0])
                if t[0] == 'Set':
                    return e, t             # a copy: the same value
                if t[0] == 'List' and known(t) and has_deceq(t[1], fn.deceq):
                    return '(PyRt.Set.ofList %s)' % e, ('Set', t[1])
                raise Unsupported(node, '%s() of %s' % (f, t))
            if f == 'list' and len(a) == 1:
                e, t = self.expr(a[0])
                if t[0] == 'Dict':
                    return '(PyRt.Dict.keys %s)' % e, ('List', t[1])
        if isinstance(node.func, ast.Name) and node.func.id == 'enumerate' and 1 <= len(node.args) <= 2:
            e, t = self.expr(node.args[0])
            if t[0] != 'List':
                raise Unsupported(node, 'enumerate of a non-list')
            st = self.expr(node.args[1], INT)[0] if len(node.args) == 2 else '(0 : Int)'
            return '(PyRt.enumerate %s %s)' % (e, st), ('List', ('Prod', (INT, t[1])))
        if isinstance(node.func, ast.Name):
            f = node.func.id
            a = node.args
            if f == 'len' and len(a) == 1:
                if isinstance(a[0], ast.Name) and a[0].id == fn.self_name and self.env is None \
                        and fn.dict_view(a[0]) is not None:
                    d, dt = self.view(fn.dict_view(a[0]), '__len__', node)
                    return '(PyRt.Dict.len %s)' % d, INT
                if isinstance(a[0], ast.Name) and a[0].id == fn.self_name and self.env is None:
                    if not fn.self_len:
                        raise Unsupported(node, 'len(self) not declared in the spec')
                    return self.var('self.__len__', node)
                e, t = self.expr(a[0])
                if t[0] not in ('List', 'Str'):
                    raise Unsupported(node, 'len of a non-sequence')
                return '(PyRt.len %s)' % e, INT
            if f in ('min', 'max') and len(a) == 2:
                x, _ = self.expr(a[0], INT)
                y, _ = self.expr(a[1], INT)
                return '(%s %s %s)' % (f, x, y), INT
            if f == 'int' and len(a) == 1:
                e, t = self.expr(a[0])
                if t == INT:
                    return e, INT
                if t == BOOL:
                    return '(PyRt.ofBool %s)' % e, INT
                raise Unsupported(node, 'int() of %s' % (t,))
            if f in ('list', 'tuple') and len(a) == 1:
                e, t = self.consumed(a[0], expected if expected and expected[0] == 'List' else None)
                if t[0] != 'List':
                    raise Unsupported(node, '%s() of a non-list' % f)
                return e, t
            if f == 'bool' and len(a) == 1:
                return 'decide (%s)' % self.cond(a[0]), BOOL
        raise Unsupported(node, 'call')

    # conditions (Lean Prop, decidable) ------------------------------------------------------------
    def _sorted(self, node, expected):
        """sorted(l[, key=lambda x: <int expr>][, reverse=<bool constant>]) -> PyRt.sorted (stable)"""
        e, t = self.consumed(node.args[0], expected if expected and expected[0] == 'List' else None)
        if t[0] != 'List' or not known(t):
            if t[0] == 'List':
                raise _Unknown()
            raise Unsupported(node, 'sorted of a non-list')
        key, rev = None, 'false'
        for kw in node.keywords:
            if kw.arg == 'key' and isinstance(kw.value, ast.Lambda):
                key = kw.value
            elif kw.arg == 'reverse' and isinstance(kw.value, ast.Constant) and isinstance(kw.value.value, bool):
                rev = 'true' if kw.value.value else 'false'
            else:
                raise Unsupported(node, 'sorted keyword %s' % kw.arg)
        if key is None:
            if t[1] != INT:
                raise Unsupported(node, 'sorted without key= on non-integers')
            return '(PyRt.sorted (fun c => c) %s %s)' % (rev, e), t
        la = key.args
        if la.vararg or la.kwarg or la.kwonlyargs or la.defaults or len(la.args) != 1:
            raise Unsupported(node, 'key function')
        saved = dict(self.local)
        nm = self.fresh_bound()
        if la.args[0].arg in self.fn.vars:
            raise Unsupported(node, 'lambda parameter shadows a variable')
        self.local[la.args[0].arg] = (nm, t[1])
        self.no_hoist += 1
        try:
            body, _ = self.expr(key.body, INT)
        finally:
            self.no_hoist -= 1
            self.local = saved
        return '(PyRt.sorted (fun %s => %s) %s %s)' % (nm, body, rev, e), t

    def cond(self, node) -> str:
        if isinstance(node, ast.BoolOp):
            sep = ' ∧ ' if isinstance(node.op, ast.And) else ' ∨ '
            parts = []
            saved = self.nn
            try:
                for i, v in enumerate(node.values):
                    if i:
                        self.no_hoist += 1
                    try:
                        parts.append(self.cond(v))
                    finally:
                        if i:
                            self.no_hoist -= 1
                    t_, f_ = narrow(v)      # the later operands are evaluated only if this one was true / false
                    self.nn = self.nn | (t_ if isinstance(node.op, ast.And) else f_)
            finally:
                self.nn = saved
            return '(' + sep.join(parts) + ')'
        if isinstance(node, ast.UnaryOp) and isinstance(node.op, ast.Not):
            return '(¬ %s)' % self.cond(node.operand)
        if isinstance(node, ast.Compare):
            parts = []
            left = node.left
            for i, (op, right) in enumerate(zip(node.ops, node.comparators)):
                if i:
                    self.no_hoist += 1          # a < b < c: the second comparison only if the first holds
                try:
                    parts.append(self._compare(left, op, right, node))
                finally:
                    if i:
                        self.no_hoist -= 1
                left = right
            return parts[0] if len(parts) == 1 else '(' + ' ∧ '.join(parts) + ')'
        if isinstance(node, ast.Constant) and isinstance(node.value, bool):
            return 'True' if node.value else 'False'
        if isinstance(node, ast.Name) and self.env is None and self.fn.cls is not None and node.id == self.fn.self_name \
                and node.id not in self.fn.vars and self.fn.cls.get('dict_base') and self.fn._plain_dict_truth():
            # round 3e (additive): `if self:` of a dict subclass defining neither __bool__ nor __len__ = the dict is not empty
            return '(%s ≠ [])' % self.fn.view_term(self.fn.cls['dict_base'])
        e, t = self.expr(node)
        return self.truthy(e, t, node)

    def _heap_is(self, left, op, right, node):
        """heap mode: `a is b` / `a is not b` on dynamically typed values, `a is <sentinel>`; None when the
        comparison is an ordinary `x is None` on an Option"""
        neg = isinstance(op, ast.IsNot)
        is_none = isinstance(right, ast.Constant) and right.value is None
        is_sent = isinstance(right, ast.Name) and right.id in self.fn.sentinels and right.id not in self.fn.vars
        saved, self.nn = self.nn, frozenset()
        try:
            l, lt = self.expr(left)
        finally:
            self.nn = saved
        if lt == VAL:
            if is_none or is_sent:
                p = '(PyHeap.Val.%s %s = true)' % ('isNone' if is_none else 'isSentinel', FnTranslator._atom(l))
            else:
                r, _ = self.expr(right, VAL)
                p = '(%s = true)' % self.partial('PyHeap.Val.is? %s %s' % (FnTranslator._atom(l),
                                                                          FnTranslator._atom(r)), node)
            return '(¬ %s)' % p if neg else p
        if lt[0] == 'Option' and (is_sent or is_none):
            if lt[1] is not None and lt[1][0] == 'Fun':         # no decidable equality on callables
                return '(%s.%s = true)' % (FnTranslator._atom(l), 'isSome' if neg else 'isNone')
            if is_sent:
                return '(%s %s none)' % (l, '≠' if neg else '=')
            return None
        if is_none or is_sent:
            return None
        rt = self.fn._type_of(right, self.nn)
        if rt == VAL and boxable(lt):
            r, _ = self.expr(right, VAL)
            p = '(%s = true)' % self.partial('PyHeap.Val.is? %s %s' % (box(l, lt, node), FnTranslator._atom(r)), node)
            return '(¬ %s)' % p if neg else p
        return None

    def truthy(self, e, t, node):
        bk = (self.fn.cls or {}).get('backend') if self.fn.heap else None
        if bk and t == ('Var', bk['type']):
            return '(PyHeap.Backend.truthy %s = true)' % e         # heap mode: `if backend:` / `while backend:`
        if t == BOOL:
            return '(%s = true)' % e
        if t == INT:
            return '(%s ≠ 0)' % e
        if t[0] in ('List', 'Str', 'Dict'):
            return '(%s ≠ [])' % e
        if t[0] == 'Set':
            return '(PyRt.Set.isEmpty %s = false)' % e
        if t[0] == 'Option' and known(t) and t[1][0] not in ('Int', 'Bool', 'List', 'Str', 'Option'):
            return '(%s ≠ none)' % e
        raise Unsupported(node, 'truth value of %s' % (t,))

    def _compare(self, left, op, right, node):
        if isinstance(op, (ast.In, ast.NotIn)):
            l, lt = self.expr(left)
            if isinstance(right, (ast.Tuple, ast.List)):
                if not right.elts:
                    raise Unsupported(node, 'membership in an empty display')
                eqs = []
                for e in right.elts:
                    r, rt = self.expr(e, lt)
                    if not has_deceq(unify(lt, rt, node), self.fn.deceq):
                        raise Unsupported(node, 'equality on %s' % (lt,))
                    eqs.append('%s = %s' % (l, r))
                p = '(' + ' ∨ '.join(eqs) + ')'
            else:
                callee = self.fn.callee('__contains__', [left], [], node, self.nn) \
                    if (self.fn.cls is not None and isinstance(right, ast.Name) and right.id == self.fn.self_name
                        and self.env is None) else None
                if callee is not None:
                    v, vt = self._method_value(callee, node)
                    if vt != BOOL:
                        raise Unsupported(node, '__contains__ must return a Bool')
                    p = '(%s = true)' % v
                    return p if isinstance(op, ast.In) else '(¬ %s)' % p
                dv = self.fn.dict_view(right) if self.env is None else None
                if dv is not None:
                    r, rt = self.view(dv, '__contains__', node)
                else:
                    r, rt = self.expr(right)
                if rt[0] == 'Dict' and has_deceq(unify(lt, rt[1], node), self.fn.deceq):
                    p = '(PyRt.Dict.contains %s %s = true)' % (r, l)
                    return p if isinstance(op, ast.In) else '(¬ %s)' % p
                if rt[0] == 'Set' and has_deceq(unify(lt, rt[1], node), self.fn.deceq):
                    p = '(PyRt.Set.contains %s %s = true)' % (r, l)
                    return p if isinstance(op, ast.In) else '(¬ %s)' % p
                if rt[0] != 'List' or not has_deceq(unify(lt, rt[1], node), self.fn.deceq):
                    raise Unsupported(node, 'membership in %s' % (rt,))
                p = '(PyRt.contains %s %s = true)' % (r, l)
            return p if isinstance(op, ast.In) else '(¬ %s)' % p
        if isinstance(op, (ast.Is, ast.IsNot)) and self.fn.heap and self.env is None:
            r = self._heap_is(left, op, right, node)
            if r is not None:
                return r
        if isinstance(op, (ast.Is, ast.IsNot)):
            if isinstance(right, ast.Constant) and right.value is None:
                saved, self.nn = self.nn, frozenset()       # the test itself reads the Option
                try:
                    l, lt = self.expr(left)
                finally:
                    self.nn = saved
                if lt[0] != 'Option':
                    raise Unsupported(node, '`is None` on a value that is never None')
                return '(%s %s none)' % (l, '=' if isinstance(op, ast.Is) else '≠')
            raise Unsupported(node, '`is` comparison')
        l, lt = self.expr(left)
        r, rt = self.expr(right, lt if known(lt) else None)
        if not known(lt):
            l, lt = self.expr(left, rt)
        if isinstance(op, (ast.Eq, ast.NotEq)):
            t = unify(lt, rt, node)
            if lt != rt or not has_deceq(t, self.fn.deceq):
                raise Unsupported(node, 'equality between %s and %s' % (lt, rt))
            return '(%s %s %s)' % (l, '=' if isinstance(op, ast.Eq) else '≠', r)
        if lt != INT or rt != INT:
            raise Unsupported(node, 'ordering on %s, %s' % (lt, rt))
        sym = {ast.Lt: '<', ast.LtE: '≤', ast.Gt: '>', ast.GtE: '≥'}.get(type(op))
        if sym is None:
            raise Unsupported(node, 'comparison operator')
        return '(%s %s %s)' % (l, sym, r)


# ---------------------------------------------------------------------------------------- modules

def _find_function(tree: ast.Module, qualname: str):
    cur = tree.body
    node = None
    for part in qualname.split('.'):
        node = None
        for n in cur:
            if isinstance(n, (ast.FunctionDef, ast.ClassDef)) and n.name == part:
                node = n                          # the LAST definition of the name wins, as in Python
        if node is None:
            raise Unsupported('module', 'no definition of %s' % qualname)
        cur = node.body
    if not isinstance(node, ast.FunctionDef):
        raise Unsupported(node, '%s is not a plain function' % qualname)
    if node.decorator_list:
        raise Unsupported(node, 'decorated function')
    node._module_tree = tree                     # for the desugaring pre-pass (module constants, helpers)
    return node


def translate_module(module_name: str, specs: list, repo: str):
    """-> (Lean source of Generated/Src_<module>.lean, info list)"""
    mod = importlib.import_module(module_name)
    path = os.path.abspath(inspect.getsourcefile(mod))
    if not path.startswith(os.path.abspath(repo) + os.sep):
        raise RuntimeError('%s imported from %s, not from %s' % (module_name, path, repo))
    src = inspect.getsource(mod)
    with open(path) as fh:
        if fh.read() != src:
            # the import cache and the working tree differ: read the file (the check runs in a fresh process)
            fh.seek(0)
            src = fh.read()
    for spec in specs:                           # round 3b: role -> attribute map, by evaluating the real class
        c = spec.get('cls')
        if c is not None and c.get('role_probe') and hasattr(mod, c['name']):
            import py2lean_clsprep
            c['_actual'] = py2lean_clsprep.resolve_roles(c, getattr(mod, c['name']))
    return translate_source(src, specs, module_name, os.path.relpath(path, os.path.abspath(repo)))


def class_state_text(cls) -> str:
    """the record of the object state of a class: the attributes the spec declares"""
    tp = cls.get('tparams', [])
    out = ['/-- object state of `%s` (the attributes declared in the spec) -/' % cls['name'],
           'structure %s.St %swhere' % (cls.get('state_lean', cls['lean_name']),
                                        ('(%s : Type) ' % ' '.join(tp)) if tp else '')]
    for a, t in cls['state'].items():
        f = lean_field(a)
        out.append('  %s : %s%s' % (f, show_type(parse_type(t)), '' if f == a else '    -- ' + a))
    if cls.get('peer'):
        # `self.<peer attr>` is an object of the same class whose state is this record seen from the other side
        tps = ''.join(' ' + p for p in tp)
        out.append('')
        out.append('/-- the state of `self.%s` (same class, same two dicts, roles exchanged) -/' % cls['peer']['attr'])
        out.append('def %s.St.swap %s(st : %s.St%s) : %s.St%s :=\n  { %s }' % (
            cls['lean_name'], ('{%s : Type} ' % ' '.join(tp)) if tp else '', cls['lean_name'], tps,
            cls['lean_name'], tps,
            ', '.join('%s := st.%s' % (lean_field(a), lean_field(b)) for a, b in cls['peer']['swap'].items())))
    return '\n'.join(out) + '\n'


def _rt_import(specs):
    """the runtime module a generated file imports: PyRt, PyHeap (heap mode), or the one of an extension module"""
    for sp in specs:
        ext = sp.get('ext') or (sp.get('cls') or {}).get('ext')
        if ext:
            return importlib.import_module(ext).RT_IMPORT
    return 'PyHeap' if any((sp.get('cls') or {}).get('heap') for sp in specs) else 'PyRt'


def translate_source(src: str, specs: list, module_name: str, rel: str):
    """translate the functions named by `specs` out of the module source text `src`"""
    tree = ast.parse(src)
    module_defs = {n.name: n for n in tree.body if isinstance(n, ast.FunctionDef)}
    short = module_name.split('.')[-1]
    parts, infos, head = [], [], []
    emitted, classes = set(), []
    for spec in specs:                           # round 3b: helper methods translated on demand, per run
        if spec.get('cls') is not None and spec['cls'].get('helpers'):
            spec['cls']['_helpers'], spec['cls']['_helper_texts'] = {}, []
    for spec in specs:
        info = {'function': '%s.%s' % (module_name, spec['qualname']), 'source_file': rel, 'lines': None,
                'lean_def': 'Src.%s.%s' % (short, spec['lean_name']),
                'lean_pre': None if spec.get('cls') else 'Src.%s.%s_pre' % (short, spec['lean_name']),
                'tie_theorem': spec['tie_theorem']}
        infos.append(info)
        try:
            fdef = _find_function(tree, spec['qualname'])
            info['lines'] = '%d-%d' % (fdef.lineno, fdef.end_lineno)
            tr = FnTranslator(fdef, spec, module_defs, tree, emitted)
            info.update(tr.prepass)              # which desugarings of py2lean_prepass were applied, if any
            text = tr.emit()
            emitted.add(spec['lean_name'])
            cls = spec.get('cls')
            if cls is not None and cls.get('_helper_texts'):
                info['helpers'] = [n for n, _ in cls['_helper_texts']]
                text = '\n'.join(t for _, t in cls['_helper_texts']) + '\n' + text
                cls['_helper_texts'] = []
            if cls is not None and cls.get('state_lean', cls['lean_name']) not in classes:
                classes.append(cls.get('state_lean', cls['lean_name']))
                text = class_state_text(cls) + '\n' + text
        except (Unsupported, _Unknown, RecursionError) as e:
            # outside the subset: no definition is emitted, so the tie theorem of this function stops
            # checking (and is named by the audit); the other functions of the module are unaffected
            info['error'] = str(e) or type(e).__name__
            parts.append('-- NOT TRANSLATED: %s: %s\n' % (spec['qualname'], info['error'].replace('\n', ' ')))
            head.append('  %s -> NOT TRANSLATED' % spec['qualname'])
            continue
        parts.append(text)
        head.append('  %s (lines %s) -> Src.%s.%s' % (spec['qualname'], info['lines'], short, spec['lean_name']))
    out = ('/- GENERATED by harness/py2lean.py from %s - do not edit.\n'
           '   Shallow CPS translation of the current source text (rules: notes/SRCTIE.md):\n%s\n-/\n'
           'import BoltonsVerif.%s\n\nnamespace Src.%s\n\n%s\nend Src.%s\n' % (
               rel, '\n'.join(head), _rt_import(specs),
               short, '\n'.join(parts), short))
    return out, infos


def generate(pid: str, repo: str):
    """all generated files of one property: ({file name: text}, infos)"""
    import srctie_specs
    ext = [sp for sp in srctie_specs.SPECS.get(pid, []) if sp.get('translator')]
    if ext:      # dispatch: specs translated by a module of their own (spec key `translator`, e.g. py2lean_c18)
        import importlib as _il
        _m = _il.import_module(ext[0]['translator'])
        if hasattr(_m, 'generate'):          # whole-property generator; otherwise per-module `translate_module` below
            return _m.generate(pid, repo, ext)
    # a generated file holds the functions of one module (spec `gen_file`: of one named group of a module, so that
    # e.g. the heap-mode classes of boltons.cacheutils do not share a file with ThresholdCounter)
    mods = {(spec['module'], spec.get('gen_file')) for spec in srctie_specs.SPECS.get(pid, [])}
    by_mod = {}
    # a module file holds the functions of every property using it; two properties may list the same definition
    # (same `lean_name`, their own `tie_theorem`): it is emitted once, and the infos carry the requested property's entry
    for p in [pid] + [q for q in sorted(srctie_specs.SPECS) if q != pid]:
        for spec in srctie_specs.SPECS.get(p, []):
            group = by_mod.get((spec['module'], spec.get('gen_file')), [])
            if (spec['module'], spec.get('gen_file')) in mods \
                    and not any(spec is x or spec['lean_name'] == x['lean_name'] for x in group):
                by_mod.setdefault((spec['module'], spec.get('gen_file')), []).append(spec)
    files, infos = {}, []
    for module_name, gen in sorted(by_mod, key=lambda x: (x[0], x[1] or '')):
        tr_mod = by_mod[(module_name, gen)][0].get('translator')     # spec key `translator`: a translator module of its own
        if tr_mod:
            text, inf = importlib.import_module(tr_mod).translate_module(module_name, by_mod[(module_name, gen)], repo)
        else:
            text, inf = translate_module(module_name, by_mod[(module_name, gen)], repo)
        files['Src_%s.lean' % (gen or module_name.split('.')[-1])] = text
        infos.extend(inf)
    return files, infos


if __name__ == '__main__':
    import sys
    sys.path.insert(0, os.path.join(os.path.dirname(os.path.abspath(__file__))))
    from bv import common
    common.ensure_repo_on_path()
    for pid in sys.argv[1:]:
        fs, inf = generate(pid, common.REPO)
        for name, text in fs.items():
            print('-- ' + name)
            print(text)
