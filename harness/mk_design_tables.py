#!/usr/bin/env python3
"""Regenerate the machine-derived tables of DESIGN.md (between <!-- BEGIN:x --> / <!-- END:x --> markers):
   findings  - from known_findings/*.json  (+ fix commit subjects from /repo)
   seeded    - from seeded/*/meta.json + result.json
   theorems  - theorem counts per property from lean/BoltonsVerif/Cxx/Props.lean"""
import json
import os
import re
import subprocess
import sys

VERIF = os.path.abspath(os.path.join(os.path.dirname(__file__), '..'))
sys.path.insert(0, os.path.join(VERIF, 'harness'))


def esc(s):
    return str(s).replace('|', '\\|').replace('\n', ' ')


def findings():
    rows = ['| Property | id | status | commit | what failed |', '|---|---|---|---|---|']
    d = os.path.join(VERIF, 'known_findings')
    for f in sorted(os.listdir(d)):
        for e in json.load(open(os.path.join(d, f)))['findings']:
            rows.append('| %s | %s | %s | %s | %s |' % (e['property'], e['id'], e['status'], e.get('commit', ''),
                                                     esc(e['what_fails'])[:400]))
    log = subprocess.run(['git', '-C', '/repo', 'log', '--format=%h %s', 'eb72521..HEAD'], stdout=subprocess.PIPE, text=True).stdout
    rows += ['', 'Fix commits in /repo (oldest last): %d' % len(log.strip().splitlines()), '', '```', log.strip(), '```']
    return '\n'.join(rows)


def natkey(s):
    return [int(t) if t.isdigit() else t for t in re.split(r'(\d+)', s)]


def harmless():
    rows = ['| id | property | kind | what was changed | quick check | what it reported |', '|---|---|---|---|---|---|']
    d = os.path.join(VERIF, 'harmless')
    n = q = fi = 0
    for s in sorted(os.listdir(d), key=natkey):
        mp = os.path.join(d, s, 'meta.json')
        if not os.path.exists(mp):
            continue
        m = json.load(open(mp))
        rp = os.path.join(d, s, 'result.json')
        r = json.load(open(rp)) if os.path.exists(rp) else {}
        n += 1
        if r.get('silent'):
            q += 1
            oc, what = 'silent', ''
        elif not r:
            oc, what = 'not run', ''
        elif 'no-failing-input-found' in r.get('violation_line', ''):
            oc, what = 'no-failing-input-found', esc(r.get('what', ''))[:200]
        else:
            fi += 1
            oc, what = 'FALSE ALARM (failing input claimed)', esc(r.get('what', ''))[:200]
        rows.append('| %s | %s | %s | %s | %s | %s |' % (s, m['property'], esc(m.get('kind', '')), esc(m.get('summary', ''))[:260], oc, what))
    rows += ['', '%d of %d property-preserving changes leave the quick check of their property silent; %d are reported with a claimed failing input (false alarms), the rest as `no-failing-input-found` (a proof obligation or the correspondence no longer checks).' % (q, n, fi)]
    return '\n'.join(rows)


def seeded():
    rows = ['| id | property | what was changed | needs | quick check | failing input reported |', '|---|---|---|---|---|---|']
    d = os.path.join(VERIF, 'seeded')
    n = c = 0
    for s in sorted(os.listdir(d), key=natkey):
        mp = os.path.join(d, s, 'meta.json')
        if not os.path.exists(mp):
            continue
        m = json.load(open(mp))
        rp = os.path.join(d, s, 'result.json')
        r = json.load(open(rp)) if os.path.exists(rp) else {}
        n += 1
        c += 1 if r.get('caught') else 0
        rows.append('| %s | %s | %s | %s | %s | %s |' % (
            s, m['property'], esc(m.get('summary', ''))[:260], esc(m.get('needs', ''))[:200],
            'caught' if r.get('caught') else ('MISSED' if r else 'not run'),
            ('yes: ' + esc(r.get('what', ''))[:160]) if r.get('with_failing_input') else ('no (proof/correspondence broken)' if r.get('caught') else '')))
    rows += ['', '%d of %d seeded changes are reported by the quick check of their property.' % (c, n)]
    return '\n'.join(rows)


def theorems():
    from bv import common
    rows = ['| Property | theorems in Props.lean | source-tie theorems (SrcTie.lean) | Lean lines (model / proofs+props) |', '|---|---|---|---|']
    tot = tots = 0
    for i in range(1, 21):
        pid = 'C%02d' % i
        d = os.path.join(VERIF, 'lean', 'BoltonsVerif', pid)
        if not os.path.exists(os.path.join(d, 'Props.lean')):
            continue
        names = common.theorem_names(pid)
        tot += len(names)
        try:
            st = common._srctie_theorems(pid)[1]
        except Exception:  # noqa: BLE001
            st = []
        tots += len(st)
        ml = pl = 0
        for f in os.listdir(d):
            if f.endswith('.lean'):
                k = len(open(os.path.join(d, f)).read().splitlines())
                if f in ('Model.lean', 'Spec.lean', 'Driver.lean', 'Main.lean'):
                    ml += k
                else:
                    pl += k
        rows.append('| %s | %d | %s | %d / %d |' % (pid, len(names), len(st) or '', ml, pl))
    rows.append('| total | %d | %d | |' % (tot, tots))
    return '\n'.join(rows)


def asbuilt():
    from bv import common
    out = []
    for i in range(1, 21):
        pid = 'C%02d' % i
        mp = os.path.join(VERIF, 'harness', 'bv', 'props', pid.lower() + '.meta.json')
        if not os.path.exists(mp):
            continue
        m = json.load(open(mp))
        names = [n.split('.', 1)[-1] for n in common.theorem_names(pid)]
        out.append('### %s (as built)\n' % pid)
        out.append('*Technique:* %s\n' % m['technique'])
        out.append('*Level claimed:* %s\n' % m['level_text'])
        out.append('*Trusted / assumed / partial:* %s\n' % m['level_note'])
        out.append('*Theorems (%d):* %s\n' % (len(names), ', '.join('`%s`' % n for n in names)))
    return '\n'.join(out)


def main():
    p = os.path.join(VERIF, 'DESIGN.md')
    s = open(p).read()
    for name, fn in (('findings', findings), ('seeded', seeded), ('harmless', harmless), ('theorems', theorems), ('asbuilt', asbuilt)):
        a, b = '<!-- BEGIN:%s -->' % name, '<!-- END:%s -->' % name
        if a in s and b in s:
            s = s[:s.index(a) + len(a)] + '\n' + fn() + '\n' + s[s.index(b):]
    open(p, 'w').write(s)


if __name__ == '__main__':
    main()
