"""srctie_quick <pid>: the source-tie part of the check only (regenerate from BOLTONS_REPO, translator self-test, build
<pid>/SrcTie.lean, audit) - for mutation experiments on the tie; prints one JSON line.  The full `./check` runs the same
three steps through the same functions of bv.common and then goes on to the correspondence / oracle."""
import json
import os
import sys
import time

sys.path.insert(0, os.path.dirname(os.path.abspath(__file__)))
from bv import common  # noqa: E402


def main(pid):
    t0 = time.time()
    common.ensure_repo_on_path()
    notes = []
    ok, infos = common.srctie_regen(pid, notes)
    st_ok, report = (True, None)
    if ok and infos and os.environ.get('BV_SRCTIE_SELFTEST') != '0':
        st_ok, report = common.srctie_selftest(pid, int(os.environ.get('VERIF_SEED', '0')), notes)
    res = {'ok': True, 'theorems': [], 'discharged': [], 'failed': [], 'bad_axioms': {}, 'forbidden': [], 'log': ''}
    common._srctie_prove(pid, res, False)
    out = {'pid': pid, 'repo': common.REPO, 'translated': [i['function'].split('.')[-1] for i in infos if not i.get('error')],
           'not_translated': {i['function'].split('.')[-1]: i['error'] for i in infos if i.get('error')},
           'selftest_ok': st_ok, 'selftest_cases': sum(v['cases'] for k, v in (report or {}).items() if not k.startswith('_')),
           'tie_green': bool(ok and st_ok and res['ok']), 'failed_theorems': [f.split('.')[-1] for f in res['failed']],
           'discharged': len(res['discharged']), 'notes': notes, 'wall_s': round(time.time() - t0, 1)}
    print(json.dumps(out))
    return 0 if out['tie_green'] else 1


if __name__ == '__main__':
    sys.exit(main(sys.argv[1]))
