"""py2lean_prepass - source-to-source desugaring in front of the SrcTie translator (harness/py2lean.py).

`run(fdef, tree, spec, info)` takes the `ast.FunctionDef` the translator is about to translate and the
module it lives in and returns an equivalent FunctionDef in which a few constructs that are *outside*
the translator's subset have been rewritten *into* it.  Every rewrite is exact on the translated
domain (the argument types of the spec), purely syntactic, and refuses (leaves the node alone, so that
the translator itself then raises `Unsupported`) whenever one of its side conditions cannot be checked
on the AST.  On a function that uses none of these constructs the result is the input object itself, so
the generated Lean text is unchanged.  This file is in the trusted base of the source tie together with
py2lean.py (specification: this docstring and notes/SRCTIE_PREPASS.md); its own self-test
(harness/py2lean_prepass_selftest.py: CPython against CPython, plus refusal cases) runs with every C07 check, and the translator self-test
(harness/py2lean_selftest.py) compares the generated definitions with the real CPython function after
the pre-pass, on every run.

Rewrites (N = a name that is neither a parameter nor a local of the function being translated):

 R1 module constants   a read of N, where the module binds N exactly once, at top level, by
                       `N = <lit>` or `A, N, ... = <lit>, <lit>, ...` and <lit> is a str / int / bool / None
                       constant, another such name, or a tuple of those                      ->  the literal.
                       "Exactly once": no other Store/Del/global/def/class/import of N anywhere in the module.
 R2 helper inlining    `g(a1, ..., an)` where the module defines g exactly once, at top level, undecorated,
                       with n plain positional parameters, and its body is `[docstring]; return <expr>`;
                       every ai is a name or a constant; after R1-R5 inside <expr> its only free names are the
                       parameters of g and builtins the translator interprets          ->  <expr>[ai / parameters].
 R3 bound methods      top-level statement `a = v.append` / `a = v.pop` (also inside a tuple assignment
                       `a, b = v.append, v.pop`) where v is a local bound exactly once, by a top-level
                       assignment textually before it, a is bound exactly once, and a occurs only as the
                       function of calls textually after it                 ->  binding removed, `a(e)` -> `v.append(e)`.
 R4 isinstance         `isinstance(p, T)` where p is a parameter whose spec type is `List ...` (a list or a tuple,
                       notes/SRCTIE.md "Types"), never rebound before the test, and T names builtin types:
                       True if T contains both `list` and `tuple`, False if it contains neither (else refused).
 R5 constant tests     `not <bool const>`, `True and x` -> x, `False or x` -> x, `False and x` -> False,
                       `True or x` -> True; `if <bool const>: A else: B` -> the taken branch.
 R6 del of the last    statement `del v[-1]` (one target, constant index -1) where v is a local, not a parameter,
    list item          and EVERY binding of v in the function is `v = [ ... ]` (a list display) or `v = list(...)`
                       (`list` not rebound in the module), so that v is a list wherever the statement runs
                                                                   ->  the expression statement `v.pop()`
                       (same effect, same IndexError on an empty list; the popped value is discarded).
"""
from __future__ import annotations

import ast
import copy

TRANSLATOR_BUILTINS = ('len', 'min', 'max', 'int', 'list', 'tuple', 'bool', 'range')
TYPE_NAMES = ('list', 'tuple', 'str', 'bytes', 'bytearray', 'int', 'float', 'bool', 'dict', 'set', 'frozenset')


class _Refuse(Exception):
    pass


def _bindings(tree: ast.Module):
    """name -> number of binding sites anywhere in the module (conservative: locals of other functions count)"""
    n = {}

    def bump(name):
        n[name] = n.get(name, 0) + 1
    for node in ast.walk(tree):
        if isinstance(node, ast.Name) and isinstance(node.ctx, (ast.Store, ast.Del)):
            bump(node.id)
        elif isinstance(node, (ast.FunctionDef, ast.AsyncFunctionDef, ast.ClassDef)):
            bump(node.name)
        elif isinstance(node, (ast.Import, ast.ImportFrom)):
            for a in node.names:
                bump((a.asname or a.name).split('.')[0])
                if a.name == '*':
                    bump('*')
        elif isinstance(node, (ast.Global, ast.Nonlocal)):
            for x in node.names:
                bump(x)
                bump(x)           # a `global` declaration makes the name rebindable from a function: never "once"
        elif isinstance(node, ast.arg):
            pass                  # parameters of other functions are their locals
        elif isinstance(node, ast.ExceptHandler) and node.name:
            bump(node.name)
        elif isinstance(node, ast.alias):
            pass
    return n


class _Module:
    def __init__(self, tree: ast.Module):
        self.tree = tree
        self.count = _bindings(tree)
        self.star = self.count.get('*', 0) > 0       # `from x import *` could bind anything
        self.const_src = {}                          # name -> ast expr of its single top-level binding
        self.funcs = {}
        for st in tree.body:
            if isinstance(st, ast.Assign) and len(st.targets) == 1:
                tgt, val = st.targets[0], st.value
                if isinstance(tgt, ast.Name):
                    self.const_src[tgt.id] = val
                elif isinstance(tgt, (ast.Tuple, ast.List)) and isinstance(val, (ast.Tuple, ast.List)) \
                        and len(tgt.elts) == len(val.elts) and all(isinstance(e, ast.Name) for e in tgt.elts):
                    for e, v in zip(tgt.elts, val.elts):
                        self.const_src[e.id] = v
            elif isinstance(st, ast.FunctionDef):
                self.funcs[st.name] = st

    def once(self, name):
        return (not self.star) and self.count.get(name, 0) == 1

    def unbound(self, name):
        """a builtin name the module never rebinds"""
        return (not self.star) and self.count.get(name, 0) == 0

    def literal(self, name, depth=0):
        """the literal AST a module constant stands for, or None"""
        if depth > 8 or not self.once(name) or name not in self.const_src:
            return None
        return self._lit(self.const_src[name], depth)

    def _lit(self, node, depth):
        if isinstance(node, ast.Constant) and (node.value is None or isinstance(node.value, (str, int, bool))) \
                and not isinstance(node.value, (float, complex, bytes)):
            return ast.Constant(value=node.value)
        if isinstance(node, ast.Name) and isinstance(node.ctx, ast.Load):
            return self.literal(node.id, depth + 1)
        if isinstance(node, ast.Tuple) and node.elts:
            elts = [self._lit(e, depth + 1) for e in node.elts]
            if any(e is None for e in elts):
                return None
            return ast.Tuple(elts=elts, ctx=ast.Load())
        return None


def _locals_of(fdef: ast.FunctionDef):
    names = {a.arg for a in fdef.args.args + fdef.args.kwonlyargs + fdef.args.posonlyargs}
    if fdef.args.vararg:
        names.add(fdef.args.vararg.arg)
    if fdef.args.kwarg:
        names.add(fdef.args.kwarg.arg)
    for n in ast.walk(fdef):
        if isinstance(n, ast.Name) and isinstance(n.ctx, (ast.Store, ast.Del)):
            names.add(n.id)
    return names


class _Expr(ast.NodeTransformer):
    """R1, R2, R4, R5 on expressions; `scope` = the names that are local at this point"""

    def __init__(self, mod: _Module, scope, list_params, notes, depth=0):
        self.mod, self.scope, self.list_params, self.notes, self.depth = mod, scope, list_params, notes, depth

    def visit_Name(self, node):
        if isinstance(node.ctx, ast.Load) and node.id not in self.scope:
            lit = self.mod.literal(node.id)
            if lit is not None:
                self.notes.add('R1 module constant %s' % node.id)
                return ast.copy_location(lit, node)
        return node

    def visit_Call(self, node):
        self.generic_visit(node)
        f = node.func
        if isinstance(f, ast.Name) and f.id not in self.scope:
            if f.id == 'isinstance':
                r = self._isinstance(node)
                if r is not None:
                    return r
            elif f.id in self.mod.funcs and f.id not in TRANSLATOR_BUILTINS:
                r = self._inline(node)
                if r is not None:
                    return r
        return node

    def _isinstance(self, node):
        if not self.mod.unbound('isinstance') or node.keywords or len(node.args) != 2:
            return None
        subj, ty = node.args
        if not (isinstance(subj, ast.Name) and subj.id in self.list_params):
            return None
        tys = ty.elts if isinstance(ty, ast.Tuple) else [ty]
        names = set()
        for t in tys:
            if not (isinstance(t, ast.Name) and t.id in TYPE_NAMES and t.id not in self.scope
                    and self.mod.unbound(t.id)):
                return None
            names.add(t.id)
        if {'list', 'tuple'} <= names:
            val = True
        elif not ({'list', 'tuple'} & names):
            val = False
        else:
            return None
        self.notes.add('R4 isinstance(%s, ...) = %s by the spec type' % (subj.id, val))
        return ast.copy_location(ast.Constant(value=val), node)

    def _inline(self, node):
        g = self.mod.funcs[node.func.id]
        if self.depth > 4 or not self.mod.once(g.name) or g.decorator_list or node.keywords:
            return None
        a = g.args
        if a.vararg or a.kwarg or a.kwonlyargs or a.posonlyargs or a.defaults:
            return None
        params = [x.arg for x in a.args]
        if len(params) != len(node.args) or len(set(params)) != len(params):
            return None
        if not all(isinstance(x, (ast.Name, ast.Constant)) for x in node.args):
            return None
        body = list(g.body)
        if body and isinstance(body[0], ast.Expr) and isinstance(body[0].value, ast.Constant) \
                and isinstance(body[0].value.value, str):
            body = body[1:]
        if len(body) != 1 or not isinstance(body[0], ast.Return) or body[0].value is None:
            return None
        # normalise the helper's expression in ITS scope (its parameters are its only locals) ...
        notes = set()
        expr = _Expr(self.mod, set(params), set(), notes, self.depth + 1).visit(copy.deepcopy(body[0].value))
        # ... after which nothing but its parameters and interpreted builtins may be free in it (a name of the
        # module would otherwise be captured by a local of the caller)
        for n in ast.walk(expr):
            if isinstance(n, (ast.Lambda, ast.ListComp, ast.SetComp, ast.DictComp, ast.GeneratorExp, ast.NamedExpr,
                              ast.Await, ast.Yield, ast.YieldFrom)):
                return None
            if isinstance(n, ast.Name):
                if not isinstance(n.ctx, ast.Load):
                    return None
                if n.id not in params and not (n.id in TRANSLATOR_BUILTINS and self.mod.unbound(n.id)
                                               and n.id not in self.scope):
                    return None
        bind = dict(zip(params, node.args))

        class Subst(ast.NodeTransformer):
            def visit_Name(self, n):
                if n.id in bind:
                    return ast.copy_location(copy.deepcopy(bind[n.id]), n)
                return n
        out = Subst().visit(expr)
        for n in ast.walk(out):
            ast.copy_location(n, node)
        self.notes.add('R2 inlined helper %s' % g.name)
        self.notes.update(notes)
        return out

    def visit_UnaryOp(self, node):
        self.generic_visit(node)
        if isinstance(node.op, ast.Not) and isinstance(node.operand, ast.Constant) \
                and isinstance(node.operand.value, bool):
            self.notes.add('R5 constant test')
            return ast.copy_location(ast.Constant(value=not node.operand.value), node)
        return node

    def visit_BoolOp(self, node):
        self.generic_visit(node)
        is_and = isinstance(node.op, ast.And)
        vals = list(node.values)
        changed = False
        while len(vals) > 1 and isinstance(vals[0], ast.Constant) and isinstance(vals[0].value, bool):
            if vals[0].value == is_and:          # `True and x` / `False or x`: the value is x's
                vals = vals[1:]
                changed = True
            else:                                # `False and x` / `True or x`: decided, x is not evaluated
                vals = vals[:1]
                changed = True
        if not changed:
            return node
        self.notes.add('R5 constant test')
        if len(vals) == 1:
            return vals[0]
        return ast.copy_location(ast.BoolOp(op=node.op, values=vals), node)


def _fold_ifs(stmts, notes):
    """R5 on statements: `if <bool const>` -> the taken branch (recursively)"""
    out = []
    for st in stmts:
        if isinstance(st, ast.If):
            st.body = _fold_ifs(st.body, notes)
            st.orelse = _fold_ifs(st.orelse, notes)
            if isinstance(st.test, ast.Constant) and isinstance(st.test.value, bool):
                notes.add('R5 dead branch removed')
                out.extend(st.body if st.test.value else st.orelse)
                continue
            if not st.body:
                st.body = [ast.copy_location(ast.Pass(), st)]
        elif isinstance(st, ast.For):
            st.body = _fold_ifs(st.body, notes) or [ast.copy_location(ast.Pass(), st)]
            st.orelse = _fold_ifs(st.orelse, notes)
        out.append(st)
    return out


def _method_aliases(fdef: ast.FunctionDef, notes):
    """R3"""
    stores = {}
    for n in ast.walk(fdef):
        if isinstance(n, ast.Name) and isinstance(n.ctx, (ast.Store, ast.Del)):
            stores[n.id] = stores.get(n.id, 0) + 1
    params = {a.arg for a in fdef.args.args}

    def pos(n):
        return (n.lineno, n.col_offset)
    top_assigned = {}        # local -> position of its (single) top-level assignment
    for st in fdef.body:
        if isinstance(st, ast.Assign) and len(st.targets) == 1 and isinstance(st.targets[0], ast.Name):
            top_assigned.setdefault(st.targets[0].id, pos(st))
    aliases = {}             # alias name -> (list variable, method, position of the binding statement)
    new_body = []
    for st in fdef.body:
        pairs = None
        if isinstance(st, ast.Assign) and len(st.targets) == 1:
            tgt, val = st.targets[0], st.value
            if isinstance(tgt, ast.Name):
                pairs = [(tgt, val)]
            elif isinstance(tgt, (ast.Tuple, ast.List)) and isinstance(val, (ast.Tuple, ast.List)) \
                    and len(tgt.elts) == len(val.elts):
                pairs = list(zip(tgt.elts, val.elts))
        if not pairs:
            new_body.append(st)
            continue
        keep = []
        for tgt, val in pairs:
            ok = (isinstance(tgt, ast.Name) and isinstance(val, ast.Attribute) and isinstance(val.value, ast.Name)
                  and val.attr in ('append', 'pop'))
            if ok:
                a, v = tgt.id, val.value.id
                ok = (stores.get(a) == 1 and a not in params and v not in params and stores.get(v) == 1
                      and v in top_assigned and top_assigned[v] < pos(st) and a != v)
            if ok:
                aliases[tgt.id] = (val.value.id, val.attr, pos(st))
            else:
                keep.append((tgt, val))
        if len(keep) == len(pairs):
            new_body.append(st)
        elif keep:
            if len(keep) == 1:
                new = ast.Assign(targets=[keep[0][0]], value=keep[0][1])
            else:
                new = ast.Assign(targets=[ast.Tuple(elts=[k[0] for k in keep], ctx=ast.Store())],
                                 value=ast.Tuple(elts=[k[1] for k in keep], ctx=ast.Load()))
            new_body.append(ast.copy_location(new, st))
        # else: the whole statement only bound aliases -> dropped
    if not aliases:
        return
    # every other occurrence of an alias must be the function of a call, textually after the binding
    call_funcs = set()
    for n in ast.walk(ast.Module(body=new_body, type_ignores=[])):
        if isinstance(n, ast.Call) and isinstance(n.func, ast.Name) and n.func.id in aliases:
            if pos(n) <= aliases[n.func.id][2]:
                raise _Refuse()
            call_funcs.add(id(n.func))
    for n in ast.walk(ast.Module(body=new_body, type_ignores=[])):
        if isinstance(n, ast.Name) and n.id in aliases and id(n) not in call_funcs:
            raise _Refuse()

    class Expand(ast.NodeTransformer):
        def visit_Call(self, n):
            self.generic_visit(n)
            if isinstance(n.func, ast.Name) and n.func.id in aliases:
                v, meth, _ = aliases[n.func.id]
                f = ast.Attribute(value=ast.copy_location(ast.Name(id=v, ctx=ast.Load()), n.func), attr=meth,
                                  ctx=ast.Load())
                n.func = ast.copy_location(f, n.func)
            return n
    fdef.body = [Expand().visit(st) for st in new_body] or [ast.copy_location(ast.Pass(), fdef)]
    for a, (v, meth, _) in sorted(aliases.items()):
        notes.add('R3 bound method %s = %s.%s' % (a, v, meth))


def _del_last(fdef: ast.FunctionDef, mod: _Module, notes):
    """R6"""
    params = {a.arg for a in fdef.args.args + fdef.args.kwonlyargs + fdef.args.posonlyargs}
    for extra in (fdef.args.vararg, fdef.args.kwarg):
        if extra is not None:
            params.add(extra.arg)
    fresh_list, other = set(), set()      # names bound only by `v = [..]` / `v = list(..)`; names bound otherwise
    assign_targets = set()
    for n in ast.walk(fdef):
        if isinstance(n, ast.Assign) and len(n.targets) == 1 and isinstance(n.targets[0], ast.Name):
            v = n.value
            if isinstance(v, ast.List) or (isinstance(v, ast.Call) and isinstance(v.func, ast.Name)
                                           and v.func.id == 'list' and mod.unbound('list') and not v.keywords
                                           and len(v.args) <= 1 and not any(isinstance(a, ast.Starred) for a in v.args)):
                fresh_list.add(n.targets[0].id)
                assign_targets.add(id(n.targets[0]))
    for n in ast.walk(fdef):
        if isinstance(n, ast.Name) and isinstance(n.ctx, (ast.Store, ast.Del)) and id(n) not in assign_targets:
            other.add(n.id)
        elif isinstance(n, (ast.Global, ast.Nonlocal)):
            other.update(n.names)
        elif isinstance(n, (ast.FunctionDef, ast.AsyncFunctionDef, ast.ClassDef, ast.Lambda)) and n is not fdef:
            other.update(fresh_list)      # a nested scope could rebind / shadow: give up altogether
    ok = fresh_list - other - params
    if 'list' in (other | fresh_list | params):
        return

    class Rewrite(ast.NodeTransformer):
        def visit_Delete(self, st):
            if len(st.targets) != 1:
                return st
            t = st.targets[0]
            if not (isinstance(t, ast.Subscript) and isinstance(t.value, ast.Name) and t.value.id in ok):
                return st
            ix = t.slice
            minus_one = (isinstance(ix, ast.Constant) and type(ix.value) is int and ix.value == -1) or \
                (isinstance(ix, ast.UnaryOp) and isinstance(ix.op, ast.USub) and isinstance(ix.operand, ast.Constant)
                 and type(ix.operand.value) is int and ix.operand.value == 1)
            if not minus_one:
                return st
            call = ast.Call(func=ast.Attribute(value=ast.Name(id=t.value.id, ctx=ast.Load()), attr='pop',
                                               ctx=ast.Load()), args=[], keywords=[])
            notes.add('R6 del %s[-1] = %s.pop()' % (t.value.id, t.value.id))
            return ast.copy_location(ast.Expr(value=call), st)
    fdef.body = [Rewrite().visit(st) for st in fdef.body]


def run(fdef: ast.FunctionDef, tree: ast.Module, spec: dict, info: dict = None) -> ast.FunctionDef:
    """-> an equivalent FunctionDef inside the translator's subset where possible (see the module docstring);
    the input object itself when no rewrite applies.  Never raises: a rewrite that cannot be justified is
    skipped and the translator then reports the construct as unsupported."""
    if tree is None:
        return fdef
    try:
        mod = _Module(tree)
        scope = _locals_of(fdef)
        candidates = {p for p, t in spec.get('params', {}).items() if t.strip().startswith('List')}
        # R4 needs the ORIGINAL argument: it is applied to a parameter only when, after the rewrite, no
        # rebinding of that parameter is left (every rebinding sat in a branch the rewrite itself proved dead;
        # then, by induction over the execution, every test ran on the original argument)
        while True:
            new, notes = copy.deepcopy(fdef), set()
            tr = _Expr(mod, scope, candidates, notes)
            new.body = [tr.visit(st) for st in new.body]
            new.body = _fold_ifs(new.body, notes) or [ast.copy_location(ast.Pass(), new)]
            still = {n.id for n in ast.walk(new) if isinstance(n, ast.Name)
                     and isinstance(n.ctx, (ast.Store, ast.Del))}
            bad = {p for p in candidates if p in still and any(s.startswith('R4 isinstance(%s,' % p) for s in notes)}
            if not bad:
                break
            candidates = candidates - bad
        try:
            _method_aliases(new, notes)
        except _Refuse:
            pass
        _del_last(new, mod, notes)
        if not notes:
            return fdef
        ast.fix_missing_locations(new)
        if info is not None:
            info['prepass'] = sorted(notes)
        return new
    except Exception as e:      # never let the pre-pass break a run: fall back to the untouched function
        if info is not None:
            info['prepass_error'] = '%s: %s' % (type(e).__name__, e)
        return fdef
